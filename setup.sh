#!/bin/bash
# Offline setup: nothing to build (pure Python). Verify the interpreter and imports.
set -e
cd "$(dirname "$0")"
mkdir -p evidence replays
PYTHONPATH=/repo/src:/verif PYTHONDONTWRITEBYTECODE=1 /venv/bin/python - <<'PY'
import warnings; warnings.filterwarnings("ignore")
import aiomysensors, marshmallow, aiofiles, aiomqtt
import mc.core, mc.bfs, mc.harness
assert aiomysensors.__file__.startswith("/repo/src/"), aiomysensors.__file__
print("setup ok:", aiomysensors.__file__)
PY
