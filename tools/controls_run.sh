#!/bin/bash
# tools/controls_run.sh [tier] : every negative control (controls/<name>/patch.diff) in a scratch worktree of /repo,
# the checks listed for it must all stay silent (rc=0). Prints one line per control; exit 1 if any check reports.
cd "$(dirname "$(realpath "$0")")/.." || exit 9
V=$(pwd); tier=${1:-quick}; bad=0
declare -A CHECKS=(
  [atomic-save]="C13 C14 C15 C16"
  [lowest-free-id]="C11 C04 C06 C19 C03"
  [read-without-terminator]="C17 C03"
  [normalised-version]="C05 C06 C03"
  [mqtt-bytes-payload]="C18 C16"
  [flush-continues-after-failure]="C08 C07 C09 C12"
  [strict-decimal-fields]="C02 C01 C03"
  [save-lock-yielding]="C13 C14 C15 C16 C10 C11"
  [shared-node-schema]="C01 C04 C13 C14 C15"
  [cooperative-yields]="C01 C02 C03 C04 C05 C06 C07 C08 C09 C10 C11 C12 C13 C16 C19"
)
names="${CONTROLS:-${!CHECKS[@]}}"
for name in $names; do
  wt=/tmp/ctl-$name
  git -C /repo worktree add -q --detach $wt HEAD || continue
  ( cd $wt && { git apply $V/controls/$name/patch.diff 2>/dev/null || git apply --3way $V/controls/$name/patch.diff; } ) || { echo "$name: patch does not apply"; git -C /repo worktree remove --force $wt; bad=1; continue; }
  mkdir -p $wt/out; res=""
  for p in ${CHECKS[$name]}; do
    out=$(VERIF_REPO_SRC=$wt/src VERIF_OUT_DIR=$wt/out ./check $p --tier $tier 2>&1); rc=$?
    res="$res $p=$rc"
    if [ $rc -ne 0 ]; then bad=1; echo "$out" | grep -E '^(VIOLATION|HARNESS|  C)' | head -3 | cut -c1-400; fi
  done
  git -C /repo worktree remove --force $wt
  echo "control $name:$res"
done
exit $bad
