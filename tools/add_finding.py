#!/usr/bin/env python3
"""tools/add_finding.py PROP STATUS COMMIT KEY WHAT  (status: open|fixed)"""
import json, sys
p = "/verif/known_findings.json"
d = json.load(open(p))
prop, status, commit, key, what = sys.argv[1:6]
e = {"property": prop, "status": status, "commit": commit, "key": key, "what": what}
if status == "fixed":
    e["note"] = f"fixed: property={prop} {commit} {what}"
d.append(e)
json.dump(d, open(p, "w"), indent=1, ensure_ascii=False)
open(p, "a").write("\n")
