#!/bin/bash
# tools/seed_run.sh <patch.diff> <tier> <check ids...>  -- apply to /repo, run checks, undo.
patch=$(realpath "$1"); tier=$2; shift 2
[ -n "$(git -C /repo status --porcelain)" ] && { echo "/repo not clean"; exit 9; }
git -C /repo apply "$patch" 2>/dev/null || git -C /repo apply --3way "$patch" || { echo "PATCH DOES NOT APPLY"; git -C /repo reset -q --hard; exit 8; }
trap 'git -C /repo reset -q --hard; git -C /repo clean -fdq src' EXIT
cd /verif
for p in "$@"; do
  out=$(./check $p --tier $tier 2>&1); rc=$?
  echo "== $p rc=$rc $(echo "$out" | grep -c '^VIOLATION') violations"
  echo "$out" | grep -v '^VIOLATION' | grep -v '^KNOWN' | grep '  C' | cut -c1-260 | head -4
  [ $rc -eq 2 ] && echo "$out" | tail -3
done
rm -f /verif/replays/*.json
