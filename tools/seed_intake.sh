#!/bin/bash
# tools/seed_intake.sh <worktree> <prop> <first-index> : copy seed*/ from an agent worktree, confirm, run the target check
wt=$1; p=$2; idx=$3
for s in $wt/seed*/; do
  [ -f $s/patch.diff ] || continue
  d=/verif/seeded/$p-$idx; mkdir -p $d
  cp $s/patch.diff $s/demo.py $s/notes.md $d/ 2>/dev/null
  c=$(/verif/tools/seed_confirm.sh $d 2>&1 | grep -v conda | head -1); echo "$c" > $d/confirm.txt
  echo "######## $p-$idx  $c"
  /verif/tools/seed_run.sh $d/patch.diff quick $p 2>&1 | grep -v conda | head -3
  idx=$((idx+1))
done
