#!/bin/bash
# tools/run_all.sh [tier] [seed]  -- run every registered check once, print one line each
cd /verif
tier=${1:-quick}; seed=${2:-0}
fail=0
for p in $(python3 -c "import json;print(' '.join(c['property_id'] for c in json.load(open('MANIFEST.json'))['checks']))"); do
  s=$(date +%s.%N)
  out=$(VERIF_SEED=$seed ./check $p --tier $tier 2>&1); rc=$?
  e=$(date +%s.%N)
  printf "%s rc=%d %.1fs %s\n" $p $rc $(echo "$e - $s" | bc) "$(echo "$out" | grep -c '^VIOLATION') violations, $(echo "$out" | grep -c '^KNOWN-FINDING') known"
  [ $rc -ne 0 ] && { fail=1; echo "$out" | grep -v "^VIOLATION" | tail -5; }
done
exit $fail
