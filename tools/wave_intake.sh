#!/bin/bash
# tools/wave_intake.sh <agent-worktree> <seed-id> : copy seed1/ into seeded/<seed-id>, confirm in a scratch worktree,
# then run the target check against a scratch worktree with the patch (nothing touches /repo's working tree).
wt=$1; id=$2; d=/verif/seeded/$id
[ -f $wt/seed1/patch.diff ] || { echo "$id: no patch"; exit 1; }
mkdir -p $d; cp $wt/seed1/patch.diff $wt/seed1/demo.py $wt/seed1/notes.md $d/ 2>/dev/null
/verif/tools/seed_confirm.sh $d 2>&1 | grep -v conda | head -1 > $d/confirm.txt
echo "## $id $(cat $d/confirm.txt)"
MATRIX_CHECKS=target /verif/tools/seed_matrix.sh $id
cat $d/target.txt | cut -c1-300
