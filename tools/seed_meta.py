#!/usr/bin/env python3
"""tools/seed_meta.py <seed-id>... : write seeded/<id>/meta.json from notes.md, confirm.txt and matrix.txt."""
import json, os, re, sys

for sid in sys.argv[1:]:
    d = f"/verif/seeded/{sid}"
    notes = open(f"{d}/notes.md", encoding="utf-8").read() if os.path.exists(f"{d}/notes.md") else ""
    confirm = open(f"{d}/confirm.txt").read().strip() if os.path.exists(f"{d}/confirm.txt") else ""
    rows = []
    seen = set()
    for fn in ("target.txt", "matrix.txt"):
        if not os.path.exists(f"{d}/{fn}"):
            continue
        for line in open(f"{d}/{fn}", encoding="utf-8"):
            m = re.match(r"(C\d+) rc=(\d) violations=(\d+) ?(.*)", line.strip())
            if m and m.group(1) not in seen:
                seen.add(m.group(1))
                rows.append({"check": m.group(1), "rc": int(m.group(2)), "violation_signatures": int(m.group(3)), "first": m.group(4)})
    prop = sid.split("-")[0]
    detected = [r["check"] for r in rows if r["rc"] == 1]
    old = json.load(open(f"{d}/meta.json", encoding="utf-8")) if os.path.exists(f"{d}/meta.json") else {}
    meta = {
        "id": sid,
        "breaks_property": prop,
        "origin": "written by an independent sub-agent that was given only the property text and a scratch worktree of /repo (nothing from /verif)",
        "needs_to_manifest": notes.strip(),
        "confirmed_in_scratch_worktree": confirm or "see tools/seed_confirm.sh",
        "what_was_run": "tools/seed_confirm.sh in a scratch worktree (demo exits 0 unchanged and 1 with the patch; the repository's 273 tests pass with the patch) and tools/seed_matrix.sh (quick checks against a scratch worktree with the patch applied: the target check always, target.txt; every registered check where matrix.txt exists)",
        "checks_run": sorted(seen),
        "detected_by_quick_checks": detected,
        "detected_by_target_check": prop in detected,
        "harness_errors": [r["check"] for r in rows if r["rc"] == 2],
        "first_report_of_target_check": next((r["first"] for r in rows if r["check"] == prop and r["rc"] == 1), None),
    }
    for k in ("initially_missed_by_target_check", "strengthened", "patch_note", "undetected"):
        if k in old:
            meta[k] = old[k]
    json.dump(meta, open(f"{d}/meta.json", "w", encoding="utf-8"), indent=1, ensure_ascii=False)
    print(sid, "target" if meta["detected_by_target_check"] else "MISSED-BY-TARGET", detected, meta["harness_errors"])
