#!/usr/bin/env python3
"""tools/seed_meta.py <seed-id>... : write seeded/<id>/meta.json from notes.md, confirm.txt and matrix.txt."""
import json, os, re, sys

for sid in sys.argv[1:]:
    d = f"/verif/seeded/{sid}"
    notes = open(f"{d}/notes.md", encoding="utf-8").read() if os.path.exists(f"{d}/notes.md") else ""
    confirm = open(f"{d}/confirm.txt").read().strip() if os.path.exists(f"{d}/confirm.txt") else ""
    rows = []
    if os.path.exists(f"{d}/matrix.txt"):
        for line in open(f"{d}/matrix.txt", encoding="utf-8"):
            m = re.match(r"(C\d+) rc=(\d) violations=(\d+) ?(.*)", line.strip())
            if m:
                rows.append({"check": m.group(1), "rc": int(m.group(2)), "violation_signatures": int(m.group(3)), "first": m.group(4)})
    prop = sid.split("-")[0]
    detected = [r["check"] for r in rows if r["rc"] == 1]
    meta = {
        "id": sid,
        "breaks_property": prop,
        "origin": "written by an independent sub-agent that was given only the property text and a scratch worktree of /repo (nothing from /verif)",
        "needs_to_manifest": notes.strip(),
        "confirmed_in_scratch_worktree": confirm or "see tools/seed_confirm.sh",
        "what_was_run": "tools/seed_confirm.sh (demo passes unchanged, fails with patch; 273 repo tests pass with patch) and tools/seed_matrix.sh (every registered quick check against a scratch worktree with the patch applied)",
        "detected_by_quick_checks": detected,
        "detected_by_target_check": prop in detected,
        "harness_errors": [r["check"] for r in rows if r["rc"] == 2],
        "first_report_of_target_check": next((r["first"] for r in rows if r["check"] == prop and r["rc"] == 1), None),
    }
    json.dump(meta, open(f"{d}/meta.json", "w", encoding="utf-8"), indent=1, ensure_ascii=False)
    print(sid, "target" if meta["detected_by_target_check"] else "MISSED-BY-TARGET", detected, meta["harness_errors"])
