#!/bin/bash
# tools/determinism.sh [ids...] : run each quick check from two fresh processes with different VERIF_SEED and
# compare what they measured (everything in the evidence except seed, wall time and the seed-picked samples).
cd "$(dirname "$(realpath "$0")")/.." || exit 9
ids=${@:-$(python3 -c "import json;print(' '.join(c['property_id'] for c in json.load(open('MANIFEST.json'))['checks']))")}
rc=0
for p in $ids; do
  for s in 11 12; do
    mkdir -p /tmp/det-$s; VERIF_SEED=$s VERIF_OUT_DIR=/tmp/det-$s ./check $p --tier quick > /tmp/det-$s/$p.out 2>&1 || { echo "$p seed $s: non-zero exit"; rc=1; }
  done
  python3 - "$p" <<'PY' || rc=1
import json, sys
p = sys.argv[1]
def load(s):
    d = json.load(open(f"/tmp/det-{s}/evidence/{p}.json"))
    d.pop("seed"); d.pop("wall_s"); d["coverage"].pop("samples", None)
    return d
a, b = load(11), load(12)
if a != b:
    ka = {k for k in a["coverage"] if a["coverage"].get(k) != b["coverage"].get(k)}
    print(f"{p}: DIFFERS in {sorted(ka)}"); sys.exit(1)
print(f"{p}: identical ({a['coverage'].get('states', a['coverage'].get('evaluations'))})")
PY
done
rm -rf /tmp/det-11 /tmp/det-12
exit $rc
