#!/usr/bin/env python3
"""Regenerate MANIFEST.json from the table below (keeps it valid at all times)."""
import json
import os
import subprocess
import sys

VERIF = os.path.dirname(os.path.dirname(os.path.abspath(__file__)))

BASELINE_OFF = "cd /repo && env -u AIOMYSENSORS_VERIF /venv/bin/python -m pytest -ra -q -p no:cacheprovider --timeout=900 --continue-on-collection-errors"

E1 = "explicit-state BFS over the real Gateway.listen/send transition function (history replay + deep-copied live states), reference-model monitor on every transition"
E2 = "stateless deviation-bounded exploration of schedules/faults of the real code on a virtual asyncio loop"
E3 = "bounded-exhaustive enumeration of inputs through the real code against a reference oracle"

# id -> (engine, category, technique, text, note, design_ref)
CHECKS = {
    "C07": (
        "E1",
        "model_checking",
        "explicit-state model checking of the implementation (BFS to a fixed point) against a reference sleep-buffer model",
        "Every reachable state of the sleep buffer for 2 nodes x 3-4 keys x 2 values (closed state space, fixed point reached) is visited on the real Gateway; every transition is compared with a reference buffer model.",
        "Sequential semantics only; alphabet-bounded (2 nodes, 2 children, 2 value types, 2 values). Trusts the harness transport (implements the public Transport ABC).",
        "5/C07",
    ),
    "C01": ("E3", "exploration",
        "bounded-exhaustive enumeration of messages (field grid x all payload strings <= L over an alphabet containing ';') through the real codec and a real gateway, against a reference encoder",
        "Every message of the stated finite space is encoded, decoded and re-encoded by the real MessageSchema under all five versions and compared byte for byte with a reference encoder; set messages also go through Gateway.send and Gateway.listen.",
        "Payload alphabet of 5 (quick) / 8 (thorough) symbols, length <= 3 / 4; boundary field grid.",
        "5/C01"),
    "C02": ("E3", "exploration",
        "bounded-exhaustive enumeration of lines (full product of per-position boundary tokens, 0-8 fields) through the real decoder and Gateway.listen, against a three-valued reference acceptor",
        "The full product of per-position token alphabets (valid/boundary/negative/huge/non-numeric/empty/padded) with 0-8 fields and several line endings, x five versions: accept/reject verdict, decoded values and the exception class are compared with a reference acceptor; rejected lines are also fed to a real Gateway.listen step.",
        "Token alphabets per position (10/8/9/6/8 tokens thorough). Unusual int()-parsable spellings are either-accepted.",
        "5/C02"),
    "C03": ("E1", "model_checking",
        "exhaustive hostile-line alphabet delivered in every controller state found by BFS over set-up events, each followed by a usability probe; exhaustive short byte strings through the real stream pipeline",
        "In every distinct controller state reachable in <= 3/4 set-up events (per version incl. unknown) every line of a ~3000-6000 line hostile alphabet (all internal types -1..40,255 x absurd payloads x gateway/known/unknown node, stream types, other commands, malformed shapes) is fed to a real listen() step which must yield or raise a library error; then three well-formed lines must be processed normally. All byte strings <= 4/5 over 6 byte values go through real StreamReader -> TCPTransport -> Gateway.listen.",
        "Alphabet-bounded payloads/types; byte streams fully buffered (chunking is C17).",
        "5/C03"),
    "C04": ("E1", "model_checking",
        "explicit-state model checking of the implementation (depth-bounded BFS) against a reference registry model",
        "All histories of received messages up to depth 5 (quick) / 5-6 (thorough) over a 28-36 event alphabet (payloads with ';' included), per protocol version, on the real Gateway; after every transition the registry, the outcome (yield / error naming the node or child) and the consumed-line count are compared with a reference registry; a re-presented node must equal the node the same line creates in an empty registry (differential); plus a 6-step history for every child type x value type of each version (and types outside the tables).",
        "Depth-bounded (state space does not close). 2 nodes x 2 children x 2 value types. Attributes not fixed by the statement after a re-presentation are not compared until next reported.",
        "5/C04"),
    "C05": ("E1", "model_checking",
        "exhaustive version-string and type-number grids through the real setter/wire + explicit-state BFS over version-report histories with an agreement invariant",
        "650 version strings x 3 ways of reporting; every internal type -1..40 and stream type -1..8 per version; all histories (depth 4/5) of 8 version reports x 2 carriers mixed with traffic and type probes, invariant 'reported version, handlers and codec agree' in every state.",
        "Type tables from the MySensors serial API. Junk reports may be rejected or ignored.",
        "5/C05"),
    "C06": ("E1", "model_checking",
        "explicit-state model checking of the implementation (depth-bounded BFS) against a reaction table",
        "All histories to depth 5 (quick) / 7 (thorough) over ~23 events (received lines, reboot flag, one application send) x version unknown + five versions x metric/imperial, plus the same from a base state with a stored value; per transition the multiset of writes must equal the reaction table (id/config/time/req/discover/reboot/version query); plus a grid over 4 time zones x 2 instants and a depth-1 sweep of every type number of every command.",
        "time.localtime/time.time frozen; presentation requests filtered by form (C10).",
        "5/C06"),
    "C08": ("E2", "fault_enumeration",
        "exhaustive enumeration of the tree of ok/fail answers to every transport write attempt across sequences of wakes, on the real gateway",
        "Every non-empty subset (<= 4) of 5 parked commands over two nodes x every sequence of 1-3 wakes x every assignment of ok/fail to every write attempt, followed by a fault-free wake of each node: failure reported, each command exactly one successful write, never re-written, never by the other node's wake.",
        "Fault = Transport.write raises TransportFailedError. Sequential (no concurrent send).",
        "5/C08"),
    "C09": ("E2", "exploration",
        "stateless exhaustive schedule exploration (deviation-bounded, re-execution from scratch) of the real Gateway on a hand-driven asyncio loop",
        "One listener flushing the woken node's buffer + 1-3 application tasks calling send, every transport write a suspension point the explorer completes in every order: quick all schedules with <= 2 early firings, thorough every schedule; oracle at quiescence after one more wake: last sent = last written per key, nothing phantom, nothing duplicated.",
        "Virtual loop keeps asyncio's FIFO ready order; write order = invocation order; 9-11 scenario shapes x 2-3 versions.",
        "5/C09"),
    "C10": ("E1", "model_checking",
        "explicit-state model checking of the implementation (BFS to a fixed point) against an 'outstanding request' model, with write-fault events",
        "Closed state space for 2 (quick) / 2-3 (thorough) nodes x every message kind that can hit a missing node/child (both node presentation types) x optional write fault, plus the gateway's own version reply / presentation / log traffic, all five versions; every transition checked: exactly one request per episode under 2.x, none under 1.x, failed request not counted.",
        "Report payloads equal attribute defaults so the registry stays finite.",
        "5/C10"),
    "C11": ("E1", "model_checking",
        "explicit-state BFS from 337-670 initial registries over id requests and presentations",
        "Every subset of {0,1,2,3,253,254,255} plus dense/sparse registries as initial state, built by real presentations and/or restored from a persistence file by the real Persistence.load; all sequences of id requests / presentations to depth 3 (quick) / 5 (thorough); registry inspected at the instant of the transport write.",
        "Depth-bounded per initial registry.",
        "5/C11"),
    "C12": ("E3", "exploration",
        "bounded-exhaustive enumeration of send calls (command x type x buffering flag x destination state x version) on the real gateway with a written/held-then-released/library-error oracle",
        "Every codec-accepted message over types 0-60 / -1..41 / -1..8 per command x message_buffer default/True/False x destination unknown/awake/sleeping x five versions is sent on a fresh real gateway that also holds a sleeping bystander node; if nothing is written, other traffic (the destination's own reports, the bystander's wake) must not release it and the destination's next wake must, once; plus 69 sequences of 2-4 sends per configuration.",
        "One destination node and child; 'held' is checked at the very next wake only.",
        "5/C12"),
    "C13": ("E1", "model_checking",
        "explicit-state BFS over received-message histories with boundary payloads; in every reached state save+load through the real Persistence on an in-memory file system; plus an exhaustive grid of constructed registries",
        "Every registry reachable in <= 4 (quick) / 5 (thorough) messages over a 19-26 event boundary alphabet is saved and re-loaded by the real code (real aiofiles on the virtual loop) and compared attribute by attribute; each saved file is also translated to the legacy pymysensors layout and must load to the same registry; 972 directly constructed nodes likewise.",
        "In-memory file system behind aiofiles.threadpool.sync_open; legacy layout produced by a reference translator.",
        "5/C13"),
    "C14": ("E3", "exploration",
        "bounded-exhaustive enumeration of file contents (all prefixes, all single-path mutations, all values of a small JSON grammar, raw bytes, injected OSErrors) through the real Persistence.load",
        "Every byte prefix of three valid files; for every JSON path 15 replacement values + delete/rename/unknown key; every JSON value of a depth-3 grammar as document / node record / children map; undecodable bytes; OSError at open/read/close: load must succeed or raise PersistenceReadError. Missing file is created and loads back; empty file = empty registry.",
        "In-memory file system behind aiofiles.threadpool.sync_open; locale encoding C.UTF-8.",
        "5/C14"),
    "C15": ("E2", "fault_enumeration",
        "exhaustive crash-point enumeration over the raw file-operation log of a real save (every op prefix, every byte of every raw write), each crash state re-loaded by the real code",
        "For every ordered pair of 3 (quick) / 5 (thorough, incl. a 30 KB one) registries the real Persistence.save runs over an in-memory file system that logs raw operations of CPython's real buffered text stack; the file system after every prefix of that log and after every byte of each raw write is loaded by the real Persistence.load and must equal old or new. Two crash classes are open known findings (truncate-in-place); any other class is reported.",
        "Process-crash model (no power loss). In-memory file system behind aiofiles.threadpool.sync_open.",
        "5/C15"),
    "C16": ("E2", "exploration",
        "stateless exhaustive schedule x fault exploration of the real Gateway context manager and Persistence saver on a hand-driven asyncio loop with virtual clock and in-memory file system",
        "async with Gateway(...) with a body that mutates the registry; every order of {complete next executor job of a load/save, fire the next timer (<= 3), let the body exit} x body returns/raises x connect/disconnect ok/fail x file present/missing; cancelled executor jobs branch into takes-effect / dropped. Oracle: file loaded on entry, save after entry, save interval <= 900 virtual s, disconnect called, no CancelledError, final file = final registry, no task/timer left.",
        "Executor jobs take effect in submission order; clock horizon 3 timer firings; in-memory file system.",
        "5/C16"),
    "C17": ("E2", "exploration",
        "bounded-exhaustive enumeration of byte strings x all chunkings x endings x consumer schedules through real asyncio streams and the real TCP/Serial transports on a hand-driven loop; exhaustive flow-control schedules for writes",
        "Read side: every byte string <= 4 (quick) / 6 (thorough) over {a ; \\n C3 A9 FF} x every composition into arrival chunks x {EOF, connection error} x 3 consumer schedules, plus a tiny-limit reader; successive reads must be exactly the newline-terminated lines decoded as UTF-8, anything else a TransportError. Write side: every schedule of pause/resume/connection-lost against 1-3 writes through a real StreamWriter; bytes at the peer = UTF-8 of the lines in call order. Life cycle: use before connect, five failing factory errors, failing close/wait_closed, both transport classes.",
        "asyncio streams are real; socket/serial port replaced by a fake asyncio.Transport via the factory seams the repo's tests patch.",
        "5/C17"),
    "C18": ("E2", "exploration",
        "bounded-exhaustive enumeration of (message, prefix, payload) through the real MQTT transport over a fake broker client, plus stateless exhaustive exploration of arrival/read/disconnect interleavings on a hand-driven loop",
        "Mapping: field grid x 4 prefix pairs x 11 payloads (';' '/' '#' non-ASCII, empty): publish topic/payload/QoS at the abstract hook and at the broker client, every in-topic covered by a subscription, echo read back and decoded to the same message. Reception: every sequence of <= 3 (quick) / 4 (thorough) arrivals from {A, B, binary payload, broker error} interleaved in every order with the consumer's reads; disconnect after every prefix: arrival order, exactly once, no hanging read, no CancelledError, client closed, no task left.",
        "aiomqtt.Client replaced at the seam the repo's tests patch; aiomqtt's real MessagesIterator/Message are used.",
        "5/C18"),
    "C19": ("E1", "model_checking",
        "differential explicit-state BFS over the product of two real gateways (old, new protocol)",
        "8 version pairs; every internal/stream type of the older table x 3 payloads (received) and every internal/stream type sent with default buffering, in 3-7 base states; the full child-type x value-type product of the older tables; all histories to depth 4 (quick) / 6 (thorough) of lines and send calls; outcome, writes and registry must agree per step (heartbeat response across 2.1->2.2 modulo sleeping flag and buffer release).",
        "Heartbeat response excluded across 2.1->2.2; cross-major pairs restricted to known nodes/children.",
        "5/C19"),
}

NOT_YET = {
}

# what the checks gained after the seeded-change waves (appended to the level text)
ADDENDA = {
    "C01": "Also: long runs of > 1000 distinct messages on one decoder (a second decoder in between; the protocol set again after 1/3/100/127 lines), a long gateway session whose version report arrives late, decode-modify-encode, and the reduced grid re-run in a process that has used persistence and a gateway. Further: the same line decoded again after the application modified the first result; encoded lines over a TCP / serial stream that ends after every byte. Ninth wave: payloads with csv / format-string / regex metacharacters; id requests with other child ids inside the long runs.",
    "C02": "Also: 3-line histories on one decoder, literal decoding in gateway states with parked commands, rejects while the version is unknown and the transport fails. Further: lines with lone surrogates, NUL, BOM and 70000-character bursts. Ninth wave: braces, %s, quotes and regex metacharacters in every field; payloads containing LF / CR. Tenth wave: the yielded message edited in place before the same line arrives again.",
    "C03": "Also: well-formed follow-up traffic (every internal type) after each hostile presentation or rejected line, registries filled to and next to capacity (with and without node 0), multi-line byte histories with hostile bytes in every stored slot, a persistence file configured. Further: 300-character and lone-surrogate payloads; a wait for the next message cancelled on a silent script / TCP / serial / MQTT transport. Ninth wave: registries restored from persistence as controller states; version-like payloads without a major number. Tenth wave: park-and-wake by both announcements after each hostile presentation.",
    "C04": "Also: a 7-event alphabet around one node closed at depth 7 (never-presented child / node between re-presentations), commands parked for a sleeping node as prefix, and every ordered pair of versions as two gateways in one process (the second must behave as if alone). Further: lines ending in nothing / LF / CR LF; the placeholder must exist at the instant an id answer is written.",
    "C05": "Also: a neighbour gateway under 2.2 in the process, wake announcements and application commands parked across version changes, and gateways entering their context over persistence files (8 stored gateway-node versions x 7 report sequences x version reply / gateway presentation). Further: a sleeping gateway node; contexts left through errors and entered again. Ninth wave: an 11-step behaviour script per version string compared with the selected protocol's own string.",
    "C06": "Also: ack=1 requests, application sends with the parked-command filter, restored sleeping nodes. Further: set + req of every value type 0-60; E2 scenarios in which the wait for the next message times out while a reaction is being written. Ninth wave: live flips of Config.metric; a reboot message received from a node. Tenth wave: every internal report followed by every reaction trigger.",
    "C07": "Also: boundary and prefix ids, repeater node type, nodes whose own library version differs from the gateway's, value requests for parked keys, traffic equal to what the application sends, literal wake yield, capacity cases (up to 64 set + 29 internal commands). Further: a timeout pass (E2, C09 scenario) in which the wait that handles the wake is cancelled during a release write. Ninth wave: internal twins of set keys, value types without a name in the active protocol; a command superseded by a direct write must not be released. Tenth wave: wake announcements with the ack flag set. Eleventh wave: the same key sent with and without the ack flag.",
    "C08": "Also: value requests between wakes, the gateway reporting another 2.x release between a failed release and the retry, plain / custom TransportError classes, and send-during-flush scenarios with one failing write (via the C09 explorer). Further: timeouts of the listener during a release (shielded or abandoned writes). Ninth wave: twin commands, transport errors raised without arguments. Tenth wave: the library's MQTT transport with publishes failing at QoS 0 / 1.",
    "C09": "Also: internal commands, echoes, values the node itself reported, one failing flush write, one key replaced 3-4 times each during the previous write, senders that set the ack flag. Further: a 'timeout' event (the listener's wait is cancelled while a release write is in flight), value requests for parked keys racing with sends. Ninth wave: the node presents itself again before the wake; values that end in blanks.",
    "C10": "Also: application-sent presentation requests, leaving and re-entering the context with persistence, version switches among 2.x releases inside an episode. Further: episodes start at actual rejections; version / config / time requests from unregistered nodes. Ninth wave: id requests inside an episode; request writes abandoned by a timeout (E2). Tenth wave: gateway presentations with unusable version strings.",
    "C11": "Also: requests carrying a registered (possibly sleeping) node's own id, stray messages from unregistered ids, the unsaved persistence file loaded again mid-session (explicitly and by re-entering the context), and an E2 exploration of two concurrent listen() consumers with suspended / failing answers. Ninth wave: an id answer delivered although the write then reports an error.",
    "C12": "Also: pre-wake traffic incl. reboot flag and echoes, send-during-flush scenarios (via the C09 explorer). Further: destinations restored as sleeping (also repeater type), overlapping sends in three successive event loops on one gateway object. Ninth wave: objects carrying some message attributes; twin items. Tenth wave: value requests for the held key before the wake. Eleventh wave: a transport write failing at each position of the release, then a second wake: every held line offered to the transport in one of the two.",
    "C13": "Also: one Persistence object per history (its own file read back by itself), explicit-save histories, loads by path (missing / invalid / valid) between saves, and a second save call overlapping a running one after 0-4 of its file operations. Further: lone-surrogate names; saves meeting five OSError classes at open / write (also after a short write) / close. Ninth wave: the file after each periodic save of a session spanning three save intervals. Tenth wave: registries filling the whole id space.",
    "C14": "Also: integers beyond 4300 digits, nesting of every depth inside a record, sequences of 3 loads by one object into registries that are empty / hold other nodes / hold the file's own nodes with other values, and two gateways on one file at the same time in three successive event loops. Further: the same Persistence objects across the event loops, load during the object's own save. Ninth wave: existing files while the file system refuses writes. Tenth wave: keys that differ from the ids inside, loaded repeatedly.",
    "C15": "Also: triples saved in a row by one object over a pre-existing file, a bystander file in the same directory, and sessions whose first save dies after loading a native / legacy-layout file. Further: the first open-for-writing of the dying save failing with one of three OSError classes.",
    "C16": "Also: the real TCP / serial / MQTT transports through the seams the repo's tests patch (incl. a failing subscribe and a body read hitting EOF), a second context on the same object, a bystander gateway inside its own context, a 70-node file with a message handled mid-save, and the task inside the context cancelled from outside. Further: cancellation while the context is still being entered (connect waiting for the peer), per transport kind. Tenth wave: a context after one whose background saver died of a write error. Eleventh wave: a body that stays inside for more than one save interval by its own timer (first and second context on one object).",
    "C17": "Also: reconnects on the same object after a mid-line end with a clean / faulty first disconnect, three transports side by side (a read waiting on a silent one), unusual characters on the write side. Further: eight OS-level error classes from write() and drain(); reads cancelled while waiting. Ninth wave: a second writer task (stream order = call order); format metacharacters in byte streams. Tenth wave: byte order marks.",
    "C18": "Also: 9 prefix pairs (leading / trailing slash, regex metacharacters, one topic tree for both directions), an explicit 'reader' event, reconnects, a read pending across a reconnect, an unread backlog across failed connection attempts, publish failure followed by receive failure. Further: waiting reads that time out and are repeated; payloads with Unicode line separators. Ninth wave: prefixes with % and {0}. Tenth wave: delivery metadata (packet id, QoS, retain).",
    "C19": "Also: heartbeat requests and unknown-node heartbeats, commands parked as prefix, heartbeat responses inside histories across the 2.2 boundary (sleeping flag masked), nodes restored as sleeping. Further: an E2 scenario (suspended writes, one timeout) explored schedule by schedule under both versions of each pair.",
}


def main() -> None:
    props = [json.loads(l) for l in open(os.path.join(VERIF, "properties.jsonl"), encoding="utf-8")]
    ids = [p["id"] for p in props]
    checks = []
    for pid in ids:
        if pid not in CHECKS:
            continue
        eng, cat, tech, text, note, ref = CHECKS[pid]
        if pid in ADDENDA:
            text = text + " " + ADDENDA[pid]
        checks.append(
            {
                "property_id": pid,
                "quick_cmd": f"./check {pid} --tier quick",
                "thorough_cmd": f"./check {pid} --tier thorough",
                "evidence_file": f"/verif/evidence/{pid}.json",
                "replay_cmd_template": f"./check {pid} --replay {{path}}",
                "engine": eng,
                "level_claimed": {"category": cat, "text": text, "design_ref": f"DESIGN.md section {ref}"},
                "level_note": note,
                "technique": tech,
            }
        )
    na = [
        {"property_id": pid, "reason": NOT_YET.get(pid, "check not built yet in this round (planned: see DESIGN.md section 5); not claimed until it exists")}
        for pid in ids
        if pid not in CHECKS
    ]
    manifest = {
        "version": 1,
        "setup_cmd": "cd /verif && ./setup.sh",
        "hooks": {
            "guard": "AIOMYSENSORS_VERIF",
            "enable": "no source hooks are needed: checks import /repo/src fresh in a new process (PYTHONPATH=/repo/src) and drive it through the public API and the seams the repo's own tests patch",
            "baseline_off_cmd": BASELINE_OFF,
            "source_commits": [],
            "add_only": True,
        },
        "engines": [
            {"name": "E1", "path": "/verif/mc/bfs.py", "kind_free_text": E1, "serves_properties": [p for p in ids if p in CHECKS and CHECKS[p][0] == "E1"]},
            {"name": "E2", "path": "/verif/mc/explore.py", "kind_free_text": E2, "serves_properties": [p for p in ids if p in CHECKS and CHECKS[p][0] == "E2"]},
            {"name": "E3", "path": "/verif/mc/refmodel.py", "kind_free_text": E3, "serves_properties": [p for p in ids if p in CHECKS and CHECKS[p][0] == "E3"]},
        ],
        "checks": checks,
        "not_applicable": na,
        "notes": "All checks run the real implementation from /repo/src of the current working tree; exit 0 = held (possibly with KNOWN-FINDING lines), exit 1 = VIOLATION line(s), exit 2 = HARNESS-ERROR (machinery lost control; not a verdict).",
    }
    path = os.path.join(VERIF, "MANIFEST.json")
    with open(path, "w", encoding="utf-8") as f:
        json.dump(manifest, f, indent=1)
        f.write("\n")
    code = "import json,jsonschema;jsonschema.Draft202012Validator(json.load(open('/root/.vp/MANIFEST.schema.json'))).validate(json.load(open('%s')))" % path
    r = subprocess.run(["python3-vt", "-c", code], capture_output=True, text=True)
    print("manifest valid" if r.returncode == 0 else r.stderr[-500:])


if __name__ == "__main__":
    main()
