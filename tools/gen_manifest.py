#!/usr/bin/env python3
"""Regenerate MANIFEST.json from the table below (keeps it valid at all times)."""
import json
import os
import subprocess
import sys

VERIF = os.path.dirname(os.path.dirname(os.path.abspath(__file__)))

BASELINE_OFF = "cd /repo && env -u AIOMYSENSORS_VERIF /venv/bin/python -m pytest -ra -q -p no:cacheprovider --timeout=900 --continue-on-collection-errors"

E1 = "explicit-state BFS over the real Gateway.listen/send transition function (history replay + deep-copied live states), reference-model monitor on every transition"
E2 = "stateless deviation-bounded exploration of schedules/faults of the real code on a virtual asyncio loop"
E3 = "bounded-exhaustive enumeration of inputs through the real code against a reference oracle"

# id -> (engine, category, technique, text, note, design_ref)
CHECKS = {
    "C07": (
        "E1",
        "model_checking",
        "explicit-state model checking of the implementation (BFS to a fixed point) against a reference sleep-buffer model",
        "Every reachable state of the sleep buffer for 2 nodes x 3-4 keys x 2 values (closed state space, fixed point reached) is visited on the real Gateway; every transition is compared with a reference buffer model.",
        "Sequential semantics only; alphabet-bounded (2 nodes, 2 children, 2 value types, 2 values). Trusts the harness transport (implements the public Transport ABC).",
        "5/C07",
    ),
}

NOT_YET = {
}


def main() -> None:
    props = [json.loads(l) for l in open(os.path.join(VERIF, "properties.jsonl"), encoding="utf-8")]
    ids = [p["id"] for p in props]
    checks = []
    for pid in ids:
        if pid not in CHECKS:
            continue
        eng, cat, tech, text, note, ref = CHECKS[pid]
        checks.append(
            {
                "property_id": pid,
                "quick_cmd": f"./check {pid} --tier quick",
                "thorough_cmd": f"./check {pid} --tier thorough",
                "evidence_file": f"/verif/evidence/{pid}.json",
                "replay_cmd_template": f"./check {pid} --replay {{path}}",
                "engine": eng,
                "level_claimed": {"category": cat, "text": text, "design_ref": f"DESIGN.md section {ref}"},
                "level_note": note,
                "technique": tech,
            }
        )
    na = [
        {"property_id": pid, "reason": NOT_YET.get(pid, "check not built yet in this round (planned: see DESIGN.md section 5); not claimed until it exists")}
        for pid in ids
        if pid not in CHECKS
    ]
    manifest = {
        "version": 1,
        "setup_cmd": "cd /verif && ./setup.sh",
        "hooks": {
            "guard": "AIOMYSENSORS_VERIF",
            "enable": "no source hooks are needed: checks import /repo/src fresh in a new process (PYTHONPATH=/repo/src) and drive it through the public API and the seams the repo's own tests patch",
            "baseline_off_cmd": BASELINE_OFF,
            "source_commits": [],
            "add_only": True,
        },
        "engines": [
            {"name": "E1", "path": "/verif/mc/bfs.py", "kind_free_text": E1, "serves_properties": [p for p in ids if p in CHECKS and CHECKS[p][0] == "E1"]},
            {"name": "E2", "path": "/verif/mc/explore.py", "kind_free_text": E2, "serves_properties": [p for p in ids if p in CHECKS and CHECKS[p][0] == "E2"]},
            {"name": "E3", "path": "/verif/mc/enum.py", "kind_free_text": E3, "serves_properties": [p for p in ids if p in CHECKS and CHECKS[p][0] == "E3"]},
        ],
        "checks": checks,
        "not_applicable": na,
        "notes": "All checks run the real implementation from /repo/src of the current working tree; exit 0 = held (possibly with KNOWN-FINDING lines), exit 1 = VIOLATION line(s), exit 2 = HARNESS-ERROR (machinery lost control; not a verdict).",
    }
    path = os.path.join(VERIF, "MANIFEST.json")
    with open(path, "w", encoding="utf-8") as f:
        json.dump(manifest, f, indent=1)
        f.write("\n")
    code = "import json,jsonschema;jsonschema.Draft202012Validator(json.load(open('/root/.vp/MANIFEST.schema.json'))).validate(json.load(open('%s')))" % path
    r = subprocess.run(["python3-vt", "-c", code], capture_output=True, text=True)
    print("manifest valid" if r.returncode == 0 else r.stderr[-500:])


if __name__ == "__main__":
    main()
