#!/bin/bash
# tools/seed_matrix.sh <seed-id>...   (ids are directory names under /verif/seeded)
# For each seeded change: scratch worktree + patch, run EVERY registered quick check against that tree
# (VERIF_REPO_SRC), record which checks report it in seeded/<id>/matrix.txt, remove the worktree.
cd "$(dirname "$(realpath "$0")")/.." || exit 9
V=$(pwd)
all=$(python3 -c "import json;print(' '.join(c['property_id'] for c in json.load(open('MANIFEST.json'))['checks']))")
# MATRIX_CHECKS=all (default) | target (only the check of the property the seed was written against) | "C01 C02 ..."
for id in "$@"; do
  case "${MATRIX_CHECKS:-all}" in
    all) checks=$all ;;
    target) checks=${id%%-*} ;;
    *) checks=$MATRIX_CHECKS ;;
  esac
  wt=/tmp/mx-$id
  git -C /repo worktree add -q --detach $wt HEAD || continue
  ( cd $wt && { git apply $V/seeded/$id/patch.diff 2>/dev/null || git apply --3way $V/seeded/$id/patch.diff; } ) || { echo "$id: patch does not apply"; git -C /repo worktree remove --force $wt; continue; }
  mkdir -p $wt/out
  mfile=seeded/$id/matrix.txt; [ "${MATRIX_CHECKS:-all}" = target ] && mfile=seeded/$id/target.txt; : > $mfile
  for p in $checks; do
    out=$(VERIF_REPO_SRC=$wt/src VERIF_OUT_DIR=$wt/out ./check $p --tier quick 2>&1); rc=$?
    nv=$(echo "$out" | grep -c '^VIOLATION')
    first=$(echo "$out" | grep '^  C' | head -1 | cut -c1-200)
    echo "$p rc=$rc violations=$nv $first" >> $mfile
  done
  git -C /repo worktree remove --force $wt
  echo "$id: caught by $(grep "rc=1" $mfile | cut -d' ' -f1 | tr '\n' ' ') $(grep -c "rc=2" $mfile) harness-errors"
done
