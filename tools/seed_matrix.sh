#!/bin/bash
# tools/seed_matrix.sh <seed-id>...   (ids are directory names under /verif/seeded)
# For each seeded change: scratch worktree + patch, run EVERY registered quick check against that tree
# (VERIF_REPO_SRC), record which checks report it in seeded/<id>/matrix.txt, remove the worktree.
cd "$(dirname "$(realpath "$0")")/.." || exit 9
V=$(pwd)
checks=$(python3 -c "import json;print(' '.join(c['property_id'] for c in json.load(open('MANIFEST.json'))['checks']))")
for id in "$@"; do
  wt=/tmp/mx-$id
  git -C /repo worktree add -q --detach $wt HEAD || continue
  ( cd $wt && { git apply $V/seeded/$id/patch.diff 2>/dev/null || git apply --3way $V/seeded/$id/patch.diff; } ) || { echo "$id: patch does not apply"; git -C /repo worktree remove --force $wt; continue; }
  mkdir -p $wt/out
  : > seeded/$id/matrix.txt
  for p in $checks; do
    out=$(VERIF_REPO_SRC=$wt/src VERIF_OUT_DIR=$wt/out ./check $p --tier quick 2>&1); rc=$?
    nv=$(echo "$out" | grep -c '^VIOLATION')
    first=$(echo "$out" | grep '^  C' | head -1 | cut -c1-200)
    echo "$p rc=$rc violations=$nv $first" >> seeded/$id/matrix.txt
  done
  git -C /repo worktree remove --force $wt
  echo "$id: caught by $(grep 'rc=1' seeded/$id/matrix.txt | cut -d' ' -f1 | tr '\n' ' ') $(grep -c 'rc=2' seeded/$id/matrix.txt) harness-errors"
done
