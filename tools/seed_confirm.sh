#!/bin/bash
# tools/seed_confirm.sh <dir with patch.diff and demo.py>
# Confirms in a scratch worktree: demo exits 0 unchanged; patch applies; 273 tests pass with patch; demo exits non-zero with patch.
d=$(realpath "$1"); wt=/tmp/confirm-$$
git -C /repo worktree add -q --detach $wt HEAD || exit 9
cleanup() { git -C /repo worktree remove --force $wt; }
trap cleanup EXIT
cd $wt
PYTHONPATH=$wt/src timeout 300 /venv/bin/python $d/demo.py >/tmp/confirm-$$.out 2>&1; rc0=$?
git apply $d/patch.diff 2>/dev/null || git apply --3way $d/patch.diff || { echo "PATCH DOES NOT APPLY"; exit 8; }
tests=$(PYTHONPATH=$wt/src /venv/bin/python -m pytest -q -p no:cacheprovider --no-cov 2>&1 | tail -1)
PYTHONPATH=$wt/src timeout 300 /venv/bin/python $d/demo.py >/tmp/confirm-$$.out2 2>&1; rc1=$?
echo "demo_unchanged_rc=$rc0 demo_patched_rc=$rc1 tests_with_patch: $tests"
tail -3 /tmp/confirm-$$.out2
rm -f /tmp/confirm-$$.out /tmp/confirm-$$.out2
