"""C17 — serial/TCP transport delivers exactly the lines of the byte stream. E3 x E2."""

from __future__ import annotations

import asyncio
import itertools
from unittest.mock import patch

import serial

from aiomysensors.exceptions import TransportError, TransportFailedError
from aiomysensors.transport.serial import SerialTransport
from aiomysensors.transport.tcp import TCPTransport

from .. import core, explore
from ..vloop import VLoop

MOD = __name__
ALPHA = [b"a", b";", b"\n", b"\xc3", b"\xa9", b"\xff"]
KINDS = ("tcp", "serial")
_LOOP: VLoop | None = None


def vloop() -> VLoop:
    global _LOOP
    if _LOOP is None:
        _LOOP = VLoop()
    return _LOOP


class FakeWriter:
    def __init__(self, close_exc=None, wait_exc=None) -> None:
        self.data = b""
        self.closed = False
        self.close_exc = close_exc
        self.wait_exc = wait_exc

    def write(self, b: bytes) -> None:
        self.data += b

    async def drain(self) -> None:
        return None

    def close(self) -> None:
        self.closed = True
        if self.close_exc is not None:
            raise self.close_exc

    async def wait_closed(self) -> None:
        if self.wait_exc is not None:
            raise self.wait_exc


def connect(kind: str, loop, factory):
    """Connect a real TCPTransport / SerialTransport through the factory seam the repo's tests patch."""
    if kind == "tcp":
        t = TCPTransport("host", 5003)
        target = "aiomysensors.transport.tcp.asyncio.open_connection"
    else:
        t = SerialTransport("/dev/ttyX", 115200)
        target = "aiomysensors.transport.serial.open_serial_connection"

    async def fake(*args, **kwargs):
        return factory()

    with patch(target, fake):
        task = loop.create_task(t.connect())
        loop.run_ready()
    return t, task


def compositions(n: int):
    """All ways to cut a string of length n into consecutive non-empty chunks."""
    if n == 0:
        yield []
        return
    for mask in range(1 << (n - 1)):
        cuts = [i + 1 for i in range(n - 1) if mask >> i & 1]
        yield cuts


def chunks_of(data: bytes, cuts: list) -> list:
    out = []
    prev = 0
    for c in cuts + [len(data)]:
        if c > prev:
            out.append(data[prev:c])
        prev = c
    return out


def expected(data: bytes, limit: int):
    """Reference: [( 'ok', text ) | ('err',)] per complete segment, then the remainder."""
    segs = data.split(b"\n")
    out = []
    for s in segs[:-1]:
        if len(s) > limit:
            out.append(("err", "overlong"))
            return out, True
        try:
            out.append(("ok", s.decode("utf-8")))
        except UnicodeDecodeError:
            out.append(("err", "undecodable"))
    return out, len(segs[-1]) > limit


def run_read(kind: str, data: bytes, cuts: list, ending: str, schedule: str, limit: int) -> list:
    """One execution. Returns violation tuples."""
    loop = vloop()
    loop.enter()
    viols = []

    def bad(k, what):
        viols.append((f"C17|read-{k}|{kind}", f"[{kind}] stream {data!r} chunks {cuts} ending {ending} schedule {schedule} limit {limit}: {what}",
                      {"mode": "read", "kind": kind, "data": data.hex(), "cuts": cuts, "ending": ending, "schedule": schedule, "limit": limit}))

    try:
        reader = asyncio.StreamReader(limit=limit, loop=loop)
        t, ctask = connect(kind, loop, lambda: (reader, FakeWriter()))
        if not ctask.done() or ctask.exception() is not None:
            bad("connect", f"connect did not succeed: {ctask}")
            return viols
        pieces = chunks_of(data, cuts)
        exp, rem_overlong = expected(data, limit)
        results: list = []
        state = {"ended": False}
        maxreads = len(exp) + 3

        async def consumer():
            while len(results) < maxreads:
                try:
                    r = await t.read()
                    results.append(("ok", r))
                except TransportError as exc:
                    results.append(("err", type(exc).__name__))
                except BaseException as exc:  # noqa: BLE001
                    results.append(("foreign", type(exc).__name__, str(exc)))
                    return

        task = None
        start_after = {"eager": 0, "mid": 1, "late": len(pieces) + 1}[schedule]
        for i, piece in enumerate(pieces):
            if i == start_after and task is None:
                task = loop.create_task(consumer())
                loop.run_ready()
            reader.feed_data(piece)
            loop.run_ready()
        if task is None and schedule != "late":
            task = loop.create_task(consumer())
            loop.run_ready()
        state["ended"] = True
        if ending == "eof":
            reader.feed_eof()
        else:
            reader.set_exception(ConnectionResetError("peer reset"))
        if task is None:
            task = loop.create_task(consumer())
        loop.run_ready()
        if not task.done():
            bad("hang", f"consumer still waiting after the stream ended; results {results}")
            task.cancel()
            loop.run_ready()
            return viols
        for r in results:
            if r[0] == "foreign":
                bad(f"foreign-exception:{r[1]}", f"read raised {r[1]}: {r[2]}")
                return viols
        # compare with the reference
        if limit < 64:
            # over-long lines: everything before the first error must be the correct prefix, in order;
            # whatever is returned after an error must still be lines of the stream, in order
            if not any(r[0] == "err" for r in results):
                bad("no-final-error", f"the stream ended but no read raised a transport error: {results}")
                return viols
            first = next(i for i, r in enumerate(results) if r[0] == "err")
            body = results[:first]
            k = len(body)
            want = exp[:k]
            ok = k <= len(exp) and all(w[0] == "ok" and g[0] == "ok" and g[1] in (w[1], w[1] + "\n") for g, w in zip(body, want))
            if not ok:
                bad("lines-differ", f"reads before the first error {body} are not the leading lines {exp}")
            first_err = next((i for i, w in enumerate(exp) if w[0] == "err"), len(exp))
            if k < first_err and not _limit_could_trip(data, limit, k):
                bad("early-error", f"transport error after {k} lines although line {k} is fine: {results}")
            all_lines = []
            for seg in data.split(b"\n")[:-1]:
                try:
                    all_lines.append(seg.decode("utf-8"))
                except UnicodeDecodeError:
                    all_lines.append(None)
            pos = 0
            for r in results:
                if r[0] != "ok":
                    continue
                text = r[1][:-1] if r[1].endswith("\n") else r[1]
                while pos < len(all_lines) and all_lines[pos] != text:
                    pos += 1
                if pos >= len(all_lines):
                    bad("phantom-line", f"a read returned {r[1]!r}, which is not a (further) line of the stream; results {results}")
                    break
                pos += 1
            return viols
        def matches(g, w) -> bool:
            if w[0] == "ok":
                return g[0] == "ok" and g[1] in (w[1], w[1] + "\n")
            return g[0] == "err"

        k = 0
        while k < len(exp) and k < len(results) and matches(results[k], exp[k]):
            k += 1
        tail = results[k:]
        if any(r[0] != "err" for r in tail):
            i = k
            bad("lines-differ" if i < len(exp) and exp[i][0] == "ok" else ("undecodable-returned" if i < len(exp) else "phantom-line"),
                f"read #{i} gave {results[i]}, expected {exp[i] if i < len(exp) else 'a transport error (no line left)'}; all results {results}, stream lines {exp}")
        elif ending == "eof" and k < len(exp):
            bad("line-missing", f"read #{k} raised a transport error but the stream still holds line {exp[k]}: results {results}, stream lines {exp}")
        elif not tail:
            bad("no-final-error", f"reads {results} never reported the end of the stream")
    finally:
        loop._ready.clear()
        loop.leave()
    return viols


def _limit_could_trip(data: bytes, limit: int, k: int) -> bool:
    """With a tiny limit asyncio may also raise while a later, still unterminated line already exceeds it."""
    segs = data.split(b"\n")
    return any(len(s) > limit for s in segs[k:])


def job_read(j):
    kind, strings, limit, endings, schedules = j
    viols = []
    n = 0
    for data in strings:
        for cuts in compositions(len(data)):
            for ending in endings:
                for schedule in schedules:
                    n += 1
                    viols += run_read(kind, data, cuts, ending, schedule, limit)
    return n, viols


# -- write side: E2 over flow-control events ---------------------------------------------


class FakeSocketTransport(asyncio.Transport):
    def __init__(self) -> None:
        super().__init__()
        self.received = b""
        self._closing = False
        self.protocol = None

    def write(self, data) -> None:
        self.received += bytes(data)

    def is_closing(self) -> bool:
        return self._closing

    def close(self) -> None:
        self._closing = True

    def get_extra_info(self, name, default=None):
        return default


class WriteScenario:
    horizon = 2000

    def __init__(self, cfg: dict, loop) -> None:
        self.cfg = cfg
        self.loop = loop
        self.sock = FakeSocketTransport()
        reader = asyncio.StreamReader(loop=loop)
        self.protocol = asyncio.StreamReaderProtocol(reader, loop=loop)
        self.protocol.connection_made(self.sock)
        writer = asyncio.StreamWriter(self.sock, self.protocol, reader, loop)
        self.t, ctask = connect(cfg["kind"], loop, lambda: (reader, writer))
        assert ctask.done() and ctask.exception() is None
        self.results: list = []
        self.paused = False
        self.lost = False
        self.budget = {"pause": 1, "lost": 1}
        self.nontrivial = False
        self.call_order: list = []
        self.second = None
        self.task = loop.create_task(self._writer(self.cfg["lines"]))

    async def _writer(self, lines):
        for line in lines:
            try:
                self.call_order.append(line)
                await self.t.write(line)
                self.results.append(("ok", line))
            except TransportError as exc:
                self.results.append(("err", type(exc).__name__))
            except BaseException as exc:  # noqa: BLE001
                self.results.append(("foreign", type(exc).__name__, str(exc)))
                return

    def enabled(self) -> list:
        evs = []
        if self.cfg.get("second") and self.second is None:
            evs.append("second-writer")  # another task of the application starts writing its own lines
        if self.task.done() and (self.second is None or self.second.done()):
            return [e for e in evs if e == "second-writer"]
        if not self.lost:
            if self.paused:
                evs.append("resume")
            elif self.budget["pause"] > 0:
                evs.append("pause")
            if self.budget["lost"] > 0 and self.cfg["faults"]:
                evs.append("lost")
        return evs

    def fire(self, label: str) -> None:
        self.nontrivial = True
        if label == "second-writer":
            self.second = self.loop.create_task(self._writer(self.cfg["second"]))
            return
        if label == "pause":
            self.budget["pause"] -= 1
            self.paused = True
            self.protocol.pause_writing()
        elif label == "resume":
            self.paused = False
            self.protocol.resume_writing()
        elif label == "lost":
            self.budget["lost"] -= 1
            self.lost = True
            self.sock._closing = True
            self.protocol.connection_lost(ConnectionResetError("lost"))

    def finished(self) -> bool:
        if self.cfg.get("second") and (self.second is None or not self.second.done()):
            return False
        return self.task.done() and self.loop.ready_count() == 0

    def verdict(self, hang: bool) -> list:
        viols = []

        def bad(k, what):
            viols.append((f"C17|write-{k}|{self.cfg['kind']}", f"{self.cfg}: {what}", None))

        if self.cfg.get("second") and not hang:
            # two tasks write: the stream carries the lines in the order the write calls were made
            want = b"".join(l.encode("utf-8") for l in self.call_order)
            if any(r[0] == "foreign" for r in self.results):
                bad("foreign-exception", f"results {self.results}")
            elif not self.lost and self.sock.received != want:
                bad("call-order", f"write calls were made in the order {self.call_order}; the peer received {self.sock.received!r}")
            elif self.lost and not want.startswith(self.sock.received):
                bad("call-order", f"write calls were made in the order {self.call_order}; the peer received {self.sock.received!r}, not a prefix")
            return viols

        if hang:
            bad("hang", f"writer blocked with no event enabled (paused={self.paused}, lost={self.lost}); results {self.results}")
            return viols
        for r in self.results:
            if r[0] == "foreign":
                bad(f"foreign-exception:{r[1]}", f"write raised {r[1]}: {r[2]}")
                return viols
        ok_lines = [r[1] for r in self.results if r[0] == "ok"]
        all_bytes = b"".join(l.encode("utf-8") for l in self.cfg["lines"])
        if not self.lost:
            if len(ok_lines) != len(self.cfg["lines"]):
                bad("write-failed-without-fault", f"results {self.results}")
            if self.sock.received != all_bytes:
                bad("bytes-differ", f"peer received {self.sock.received!r}, expected {all_bytes!r}")
        else:
            # bytes that reached the peer are a prefix of the call-order byte stream
            if not all_bytes.startswith(self.sock.received):
                bad("bytes-differ", f"peer received {self.sock.received!r}, not a prefix of {all_bytes!r}")
            acked = b"".join(l.encode("utf-8") for l in ok_lines)
            if not self.sock.received.startswith(acked) and acked not in all_bytes:
                bad("acked-not-sent", f"writes reported ok {ok_lines} but peer has {self.sock.received!r}")
        return viols

    def observation(self):
        return {"results": [list(r) for r in self.results], "received": self.sock.received.hex()}


def make_scenario(cfg, loop):
    return WriteScenario(cfg, loop)


# -- life cycle ---------------------------------------------------------------------------


def lifecycle(kind: str) -> list:
    loop = vloop()
    loop.enter()
    viols = []

    def bad(k, what):
        viols.append((f"C17|lifecycle-{k}|{kind}", f"[{kind}] {what}", {"mode": "lifecycle", "kind": kind}))

    def run(coro):
        task = loop.create_task(coro)
        loop.run_ready()
        if not task.done():
            task.cancel()
            loop.run_ready()
            return ("hang", None)
        if task.cancelled():
            return ("cancelled", None)
        if task.exception() is not None:
            return ("raise", task.exception())
        return ("ok", task.result())

    try:
        t = TCPTransport("h") if kind == "tcp" else SerialTransport("p")
        for name, coro in (("read", t.read()), ("write", t.write("1;1;1;0;0;x\n"))):
            k, v = run(coro)
            if not (k == "raise" and isinstance(v, TransportError)):
                bad(f"{name}-before-connect", f"{name} before connect gave {k} {v!r}")
        k, v = run(t.disconnect())
        if k != "ok":
            bad("disconnect-before-connect", f"disconnect before connect gave {k} {v!r}")
        target = "aiomysensors.transport.tcp.asyncio.open_connection" if kind == "tcp" else "aiomysensors.transport.serial.open_serial_connection"
        for exc in (OSError("boom"), ConnectionRefusedError("refused"), TimeoutError("timeout"), serial.SerialException("no port"), FileNotFoundError(2, "no such device")):

            async def failing(*a, _exc=exc, **kw):
                raise _exc

            with patch(target, failing):
                t2 = TCPTransport("h") if kind == "tcp" else SerialTransport("p")
                k, v = run(t2.connect())
            if not (k == "raise" and isinstance(v, TransportError)):
                bad(f"connect-failure:{type(exc).__name__}", f"factory raising {exc!r} gave {k} {v!r}")
            k, v = run(t2.read())
            if not (k == "raise" and isinstance(v, TransportError)):
                bad("read-after-failed-connect", f"gave {k} {v!r}")
        for close_exc, wait_exc in ((OSError("c"), None), (None, OSError("w")), (None, ConnectionResetError("r")), (BrokenPipeError("p"), None)):
            reader = asyncio.StreamReader(loop=loop)
            w = FakeWriter(close_exc, wait_exc)
            t3, ctask = connect(kind, loop, lambda: (reader, w))
            k, v = run(t3.disconnect())
            if k != "ok":
                bad("disconnect-error-not-absorbed", f"close raising {close_exc!r} / wait_closed raising {wait_exc!r}: disconnect gave {k} {v!r}")
        # connect, disconnect, connect again on the same object: the second connection is used; the first
        # disconnect is clean, or its close / wait_closed raises an OS-level error (absorbed)
        for fault5 in (None, "close", "wait"):
            t5 = TCPTransport("h") if kind == "tcp" else SerialTransport("p")
            target5 = "aiomysensors.transport.tcp.asyncio.open_connection" if kind == "tcp" else "aiomysensors.transport.serial.open_serial_connection"
            for round_ in (1, 2):
                reader = asyncio.StreamReader(loop=loop)
                reader.feed_data(f"{round_};255;3;0;9;round{round_}\n".encode())
                if round_ == 1:
                    reader.feed_data(b"1;2;1;0")  # the first connection drops in the middle of a line
                reader.feed_eof()
                w5 = FakeWriter(OSError("close") if fault5 == "close" and round_ == 1 else None, ConnectionResetError("wait") if fault5 == "wait" and round_ == 1 else None)

                async def factory5(*a, _r=reader, _w=w5, **kw):
                    return _r, _w

                with patch(target5, factory5):
                    k, v = run(t5.connect())
                if k != "ok":
                    bad(f"reconnect|first-disconnect-fault={fault5}", f"connect #{round_} on the same transport gave {k} {v!r}")
                    break
                k, v = run(t5.read())
                if k != "ok" or v.rstrip("\n") != f"{round_};255;3;0;9;round{round_}":
                    bad(f"reconnect-read|first-disconnect-fault={fault5}", f"after connect #{round_} read gave {k} {v!r} (expected the line of connection #{round_})")
                if round_ == 1:
                    k, v = run(t5.read())
                    if not (k == "raise" and isinstance(v, TransportError)):
                        bad("midline-end", f"a stream ending in the middle of a line gave {k} {v!r}")
                k, v = run(t5.write(f"w{round_}\n"))
                if k != "ok" or w5.data != f"w{round_}\n".encode():
                    bad("reconnect-write", f"after connect #{round_} write gave {k} {v!r}; the new connection received {w5.data!r}")
                k, v = run(t5.disconnect())
                if k != "ok" or not w5.closed:
                    bad("reconnect-disconnect", f"disconnect #{round_} gave {k} {v!r}, writer closed={w5.closed}")

                async def failing5(*a, **kw):
                    raise ConnectionRefusedError("refused")

                if round_ == 2:
                    with patch(target5, failing5):
                        k, v = run(t5.connect())
                    if not (k == "raise" and isinstance(v, TransportError)):
                        bad("reconnect-failure-not-reported", f"a failing connection attempt after earlier connections gave {k} {v!r}")
        # two transports in one process: a read waiting on a silent connection must not hold up the other one
        ra, rb = asyncio.StreamReader(loop=loop), asyncio.StreamReader(loop=loop)
        ta, _ = connect(kind, loop, lambda: (ra, FakeWriter()))
        tb, _ = connect("serial" if kind == "tcp" else "tcp", loop, lambda: (rb, FakeWriter()))
        tc, _ = connect(kind, loop, lambda: (rb, FakeWriter()))
        pending = loop.create_task(ta.read())
        loop.run_ready()
        rb.feed_data(b"2;255;3;0;9;other\n3;255;3;0;9;third\n")
        k, v = run(tb.read())
        if k != "ok" or v.rstrip("\n") != "2;255;3;0;9;other":
            bad("second-transport-held-up", f"while a read is waiting on one (silent) transport, the read of a line that has already arrived on another transport gave {k} {v!r}")
        k, v = run(tc.read())
        if k != "ok" or v.rstrip("\n") != "3;255;3;0;9;third":
            bad("second-transport-held-up", f"while a read is waiting on one (silent) transport, the read of a line that has already arrived on another transport of the same kind gave {k} {v!r}")
        ra.feed_data(b"1;255;3;0;9;first\n")
        loop.run_ready()
        if not pending.done() or pending.cancelled() or pending.exception() is not None or pending.result().rstrip("\n") != "1;255;3;0;9;first":
            bad("waiting-read-lost", f"the read that was waiting did not return its line once it arrived: {pending!r}")
        if not pending.done():
            pending.cancel()
            loop.run_ready()
        # OS-level errors of every usual class, from write() and from drain(): each surfaces as a transport error
        import errno

        for where in ("write", "drain"):
            for exc in (OSError(errno.EIO, "io"), TimeoutError(errno.ETIMEDOUT, "timed out"), ConnectionResetError(errno.ECONNRESET, "reset"), BrokenPipeError(errno.EPIPE, "pipe"),
                        ConnectionAbortedError(errno.ECONNABORTED, "aborted"), BlockingIOError(errno.EAGAIN, "again"), InterruptedError(errno.EINTR, "intr"), serial.SerialException("port gone")):

                class BadWriter(FakeWriter):
                    def write(self, b, _exc=exc, _where=where):
                        if _where == "write":
                            raise _exc
                        self.data += b

                    async def drain(self, _exc=exc, _where=where):
                        if _where == "drain":
                            raise _exc

                reader = asyncio.StreamReader(loop=loop)
                tw, _ = connect(kind, loop, lambda: (reader, BadWriter()))
                k, v = run(tw.write("1;1;1;0;2;x\n"))
                if not (k == "raise" and isinstance(v, TransportError)):
                    bad(f"write-error:{type(exc).__name__}", f"writer.{where}() raising {exc!r}: write gave {k} {v!r}")
        # a read that was waiting is cancelled (the application's timeout); lines that arrive afterwards are still read
        for rounds in (1, 2):
            reader = asyncio.StreamReader(loop=loop)
            tr, _ = connect(kind, loop, lambda: (reader, FakeWriter()))
            for _ in range(rounds):
                pend = loop.create_task(tr.read())
                loop.run_ready()
                pend.cancel()
                loop.run_ready()
                if not pend.cancelled():
                    bad("cancelled-read", f"a read cancelled while waiting ended with {pend!r}")
            reader.feed_data(b"5;255;3;0;9;")
            pend = loop.create_task(tr.read())
            loop.run_ready()
            pend.cancel()
            loop.run_ready()
            reader.feed_data(b"late\n6;255;3;0;9;next\n")
            for want in ("5;255;3;0;9;late", "6;255;3;0;9;next"):
                k, v = run(tr.read())
                if k != "ok" or v.rstrip("\n") != want:
                    bad("read-after-cancelled-read", f"after {rounds + 1} reads were cancelled while waiting (a timeout around read), the next read gave {k} {v!r}, expected {want!r}")
                    break
        # write errors: drain raising OSError
        class BadDrain(FakeWriter):
            async def drain(self):
                raise ConnectionResetError("drain")

        reader = asyncio.StreamReader(loop=loop)
        t4, _ = connect(kind, loop, lambda: (reader, BadDrain()))
        k, v = run(t4.write("x\n"))
        if not (k == "raise" and isinstance(v, TransportError)):
            bad("write-error", f"drain raising gave {k} {v!r}")
    finally:
        loop._ready.clear()
        loop.leave()
    return viols


def run(ctx: core.Ctx) -> core.Report:
    L = 4 if ctx.quick else 6
    strings = [b"".join(t) for n in range(L + 1) for t in itertools.product(ALPHA, repeat=n)]
    jobs = []
    per = 40 if ctx.quick else 150
    for kind in KINDS:
        sts = strings if kind == "tcp" else strings[: len(strings) // (1 if ctx.quick else 6)]
        for i in range(0, len(sts), per):
            jobs.append((kind, sts[i : i + per], 64, ("eof", "error"), ("eager", "mid", "late")))
    # small limit: over-long lines
    small = [s for s in strings if len(s) <= (4 if ctx.quick else 5)]
    for i in range(0, len(small), per):
        jobs.append(("tcp", small[i : i + per], 2, ("eof",), ("eager", "late")))
    # bytes that mean something to str.format / % / regex machinery an error message might be built with
    special = [b'1;{"t":2}', b"{\xff}\n", b"{0}\n{", b"%s\n%(x)s", b"a{b\nc}d\n", b"}\n", b"\\\n(", b"%\n",
               # byte order marks: U+FEFF is an ordinary character of a line, wherever it stands
               b"\xef\xbb\xbfa\n", b"a\n\xef\xbb\xbfb\n", b"\xef\xbb\xbf\n", b"\xff\xfea\n"]
    jobs.append(("tcp", special, 64, ("eof", "error"), ("eager", "late")))
    jobs.append(("serial", special, 64, ("eof",), ("eager",)))
    jobs.append(("tcp", special, 2, ("eof",), ("eager",)))
    res = core.pmap(job_read, jobs, ctx.workers, chunksize=1)
    n_read = sum(r[0] for r in res)
    viols = [core.Violation(k, w, rep) for r in res for k, w, rep in r[1]]
    for kind in KINDS:
        viols += [core.Violation(k, w, rep) for k, w, rep in lifecycle(kind)]
    # write side
    line_sets = [["1;1;1;0;2;a\n"], ["1;1;1;0;2;é\n", "2;2;1;0;2;b\n"], ["1;1;1;0;2;a;b\n", "1;255;3;0;11;日本\n", "0;0;0;0;0;\n"],
                 ["1;1;1;0;2;a\rb\x0bc\x0cd\x1ce\x85f\u2028g\u2029h\n", "1;1;1;0;2; lead and trail \t\n"], ["no terminator", "\n", "x\n\ny\n"]]
    wcfgs = [{"kind": k, "lines": ls, "faults": f} for k in KINDS for ls in line_sets for f in (False, True)]
    wcfgs += [{"kind": k, "lines": ["FIRST\n", "third\n"], "second": ["SECOND\n"], "faults": f} for k in KINDS for f in (False, True)]
    wres = explore.explore(ctx, MOD, wcfgs, 2 if ctx.quick else 99)
    viols += wres["violations"]
    cov = {
        "evaluations": n_read + wres["executions"] + 2,
        "distinct_nontrivial": n_read + wres["nontrivial"],
        "rule": "read side: every byte string up to length L over 6 byte values x every composition into arrival chunks x {EOF, connection error} x 3 consumer schedules (reads pending during / between / after arrivals), through a real StreamReader and real TCP/Serial transports, plus a limit=2 reader for over-long lines; write side: all schedules of pause/resume/connection-lost events against 1-3 writes through a real StreamWriter/StreamReaderProtocol, also with a second writer task starting at any point (stream order = call order); life cycle: use before connect, failing factories, failing close. Every (string, chunking, ending, schedule) is distinct",
        "exhaustive": True,
        "bounds": {"L": L, "byte_strings": len(strings), "write_executions": wres["executions"]},
        "samples": [{"data": strings[(ctx.seed * 13 + 500) % len(strings)].hex(), "cuts": [1], "ending": "eof"}, wres["sample"]],
    }
    return core.Report(level="exploration", coverage=cov, violations=viols, assumptions=["asyncio streams are real; the socket / serial port below them is a fake asyncio.Transport", "once a connection error is injected asyncio itself discards buffered complete lines; only order/content of successful reads is checked then"])


def replay(data: dict) -> dict:
    if data.get("mode") == "read":
        v = run_read(data["kind"], bytes.fromhex(data["data"]), data["cuts"], data["ending"], data["schedule"], data["limit"])
        return {"violated": bool(v), "violations": [{"key": k, "what": w} for k, w, _ in v]}
    if data.get("mode") == "lifecycle":
        v = lifecycle(data["kind"])
        return {"violated": bool(v), "violations": [{"key": k, "what": w} for k, w, _ in v]}
    return explore.replay(MOD, data)
