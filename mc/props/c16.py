"""C16 — gateway context: load on entry, periodic and final save, no leftovers. E2 schedules x faults."""

from __future__ import annotations

import asyncio
import json
from unittest.mock import patch

from aiomysensors.exceptions import AIOMySensorsError, TransportError
from aiomysensors.gateway import Config, Gateway
from aiomysensors.model.node import Child, Node

from .. import core, explore, fsshim, pers
from ..harness import AsyncScriptTransport, canon_nodes

MOD = __name__
PATH = pers.PATH
BYS_PATH = fsshim.ROOT + "q.json"
MAX_CLOCK = 3
INTERVAL = 900  # "at least every 15 minutes"


def initial_file(large: bool = False) -> bytes:
    nodes = {1: Node(1, 17, "2.0", children={3: Child(3, 6, values={2: "on"})}, battery_level=40)}
    if large:
        # a big network: a saver that takes its time over it must still cope with the registry changing
        for n in range(101, 100 + LARGE):
            nodes[n] = Node(n, 17, "2.0", children={0: Child(0, 6, values={0: str(n)})})
    kind, val, vfs = pers.save_nodes(nodes)
    assert kind == "ok"
    return bytes(vfs.files[PATH])


LARGE = 70
_INITIAL = None
_INITIAL_LARGE = None


class Scenario:
    horizon = 3000

    def __init__(self, cfg: dict, loop) -> None:
        global _INITIAL, _INITIAL_LARGE
        self.cfg = cfg
        self.loop = loop
        if _INITIAL is None:
            loop.leave()
            _INITIAL = initial_file()
            _INITIAL_LARGE = initial_file(True)
            loop.enter()
        self.vfs = fsshim.VFS()
        self.vfs.log.clock = loop.time
        if cfg.get("file", "present") == "present":
            self.vfs.files[PATH] = bytearray(_INITIAL)
        elif cfg.get("file") == "large":
            self.vfs.files[PATH] = bytearray(_INITIAL_LARGE)
        self._cm = fsshim.installed(self.vfs)
        self._cm.__enter__()
        self.t = make_transport(cfg, loop, self)
        self.gw = Gateway(self.t, Config(persistence_file=PATH))
        self.gates: list = []  # [(what, future)]: a connect that waits for the peer (cfg cancel_entry)
        self.cmds: asyncio.Queue = asyncio.Queue()
        self.mutations = 0
        self.exit_fired = False
        self.exit_time = None
        self.clock_fires = 0
        self.entered = False
        self.enter_time = None
        self.seen_at_entry = None
        self.saves_done_at_quiescent_exit = None
        self.result = None
        self.nontrivial = False
        self.bys = None
        self.log_mark = 0
        self.preexisting: set = set()
        self.dwell = None  # cfg "dwell": a timer of the body's own, so that time can pass even if the library has no timer
        if cfg.get("earlier") == "immediate":
            # the same gateway object was entered and left once before, the body leaving at once (the saver of
            # that context never got to run)
            async def first():
                async with self.gw:
                    pass

            t0 = fsshim.run_to_completion(loop, first())
            self._drain()
            if t0.exception() is not None:
                raise core.HarnessError(f"earlier context failed: {t0.exception()!r}")
            self.t.calls.clear()
        if cfg.get("earlier") == "save-failed":
            # the same gateway object went through an earlier context in which the background save failed with a write error
            # (a transient one: the file system is healthy again now); that context ended with the error
            self.vfs.fail["open-write"] = OSError(28, "No space left on device")

            leave = asyncio.Event()

            async def first_failing():
                async with self.gw:
                    await leave.wait()

            t0 = loop.create_task(first_failing())
            self._drain()  # the saver's first save meets the error and the saver dies
            self.vfs.fail.clear()
            leave.set()
            self._drain()
            if not t0.done():
                raise core.HarnessError("earlier context did not finish")
            t0.exception() if not t0.cancelled() else None  # whatever it ended with is not this scenario's business
            self._drain()
            for t_ in [x for x in loop.tasks() if not x.done()]:
                t_.cancel()
            self._drain()
            self.t.calls.clear()
            self.vfs.files[PATH] = bytearray(_INITIAL)
        if cfg.get("bystander"):
            # a second gateway of the same process, with its own transport and file, is inside its context already
            self.bys = Gateway(AsyncScriptTransport(loop), Config(persistence_file=BYS_PATH))
            self.bys.nodes[50] = Node(50, 17, "2.0")
            t0 = fsshim.run_to_completion(loop, self.bys.__aenter__())
            self._drain()
            if t0.exception() is not None:
                raise core.HarnessError(f"bystander failed to enter: {t0.exception()!r}")
            self.preexisting = {t for t in loop.tasks() if not t.done()}
        self.left_at_exit = None
        self.overtaken: set[int] = set()
        self._keep: list = []  # keeps overtaken jobs alive so their id() stays unique
        self.main = loop.create_task(self._main())
        self.main.add_done_callback(self._on_main_done)

    def connect_gates(self) -> list:
        if self.cfg.get("transport") == "mqtt":
            from ..mqttfake import FakeClient

            return [g for g in FakeClient.gates if not g[1].done()]
        return [g for g in self.gates if not g[1].done()]

    async def wait_gate(self, what: str) -> None:
        if not self.cfg.get("cancel_entry"):
            return
        fut = self.loop.create_future()
        entry = (what, fut)
        self.gates.append(entry)
        try:
            await fut
        finally:
            if entry in self.gates:
                self.gates.remove(entry)

    def _drain(self) -> None:
        """Run everything that can run without a timer (ready handles, executor jobs in submission order)."""
        for _ in range(10000):
            if self.loop.ready_count():
                self.loop.step()
            elif self.loop.pending_jobs():
                self.loop.run_job(self.loop.pending_jobs()[0])
            else:
                return
        raise core.HarnessError("drain does not terminate")

    def _on_main_done(self, _task) -> None:
        if self.result is None:
            # cancelled before its first step
            self.result = ("raise", asyncio.CancelledError()) if _task.cancelled() else ("raise", _task.exception())
        # what is still running at the moment the context has been left
        self.left_at_exit = sorted(
            getattr(t.get_coro(), "__qualname__", repr(t)) for t in self.loop.tasks() if not t.done() and t is not self.main and t not in self.preexisting
        )

    async def _main(self):
        self.log_mark = len(self.vfs.log)  # file operations of THIS context start here
        try:
            async with self.gw as gw:
                self.entered = True
                self.enter_time = self.loop.time()
                self.seen_at_entry = sorted(gw.nodes)
                gw.nodes[9] = Node(9, 17, "2.1", sketch_name="added by body")
                if self.cfg.get("dwell"):
                    # the body stays inside for a little more than one save interval whatever the library schedules
                    self.dwell = self.loop.call_later(INTERVAL + 1, lambda: None)
                if self.cfg.get("body_read") == "eof":
                    # the peer has closed the connection: the body's read fails with a transport error
                    try:
                        await gw.listen().__anext__()
                    except AIOMySensorsError:
                        pass
                while await self.cmds.get() == "mutate":
                    # the body handles a message that adds a node, and stays inside the context
                    gw.nodes[20 + self.mutations] = Node(20 + self.mutations, 17, "2.2", sketch_name="presented meanwhile")
                self.exit_time = self.loop.time()
                # the body changes the registry once more just before it leaves
                gw.nodes[9].battery_level = 77
                gw.nodes[10] = Node(10, 18, "2.2", children={0: Child(0, 3, values={2: "late"})})
                if self.cfg["body"] == "raise":
                    raise RuntimeError("body")
        except BaseException as exc:  # noqa: BLE001
            self.result = ("raise", exc)
            return
        self.result = ("return", None)

    # -- environment ---------------------------------------------------------------
    def enabled(self) -> list:
        evs = []
        jobs = self.loop.pending_jobs()
        if jobs:
            j = jobs[0]  # jobs take effect in submission order ...
            if j.fut.cancelled():
                evs += ["job:run-cancelled", "job:drop-cancelled"]
            else:
                evs.append("job")
            # ... except that two jobs in flight on two pool threads may finish in either order: the next job
            # may overtake the oldest one once (a job is never overtaken twice: no long stalls)
            if len(jobs) > 1 and id(j) not in self.overtaken:
                if jobs[1].fut.cancelled():
                    evs += ["job2:run-cancelled", "job2:drop-cancelled"]
                else:
                    evs.append("job2")
        if not self.exit_fired and (self.cfg["body"] != "cancel" or self.entered or self.cfg.get("cancel_entry")):
            evs.append("exit")
        if self.entered and not self.exit_fired and self.mutations < self.cfg.get("mutations", 0):
            evs.append("mutate")
        nt = self.loop.next_timer()
        if self.clock_fires < self.cfg.get("max_clock", MAX_CLOCK) and nt is not None and not self.main.done():
            # time passes up to the body's own timer only when nothing is in flight (file operations take no virtual
            # time; a save that has been started is not overtaken by the clock)
            if nt is not self.dwell or (not jobs and self.loop.ready_count() == 0):
                evs.append("clock")
        evs += transport_events(self)
        return evs

    def fire(self, label: str) -> None:
        if label.startswith("job2"):
            jobs = self.loop.pending_jobs()
            self.overtaken.add(id(jobs[0]))
            self._keep.append(jobs[0])
            self.nontrivial = True
            if label == "job2:drop-cancelled":
                self.loop.drop_job(jobs[1])
            else:
                self.loop.run_job(jobs[1])
        elif label == "job":
            self.loop.run_job(self.loop.pending_jobs()[0])
        elif label == "job:run-cancelled":
            self.nontrivial = True
            self.loop.run_job(self.loop.pending_jobs()[0])
        elif label == "job:drop-cancelled":
            self.nontrivial = True
            self.loop.drop_job(self.loop.pending_jobs()[0])
        elif label == "exit":
            self.exit_fired = True
            if self.entered and self.clock_fires == 0 and self.loop.ready_count() == 0 and not self.loop.pending_jobs():
                self.saves_done_at_quiescent_exit = self.saves_completed()
            if self.loop.pending_jobs() or self.loop.ready_count():
                self.nontrivial = True  # exit lands while the saver is in the middle of something
            if self.cfg["body"] == "cancel":
                # the application cancels the task that is inside the context (Task.cancel, as asyncio.run does on Ctrl-C)
                self.exit_time = self.loop.time()
                self.main.cancel()
            else:
                self.cmds.put_nowait("exit")
        elif label == "mutate":
            self.mutations += 1
            if self.loop.pending_jobs() or self.loop.ready_count():
                self.nontrivial = True
            self.cmds.put_nowait("mutate")
        elif label == "clock":
            self.clock_fires += 1
            self.loop.advance()
        else:
            fire_transport_event(self, label)

    def finished(self) -> bool:
        return self.main.done() and self.loop.ready_count() == 0 and not [j for j in self.loop.pending_jobs()]

    # -- observations -----------------------------------------------------------------
    @staticmethod
    def _is_write_open(op) -> bool:
        # a save may write the file itself or a sibling it later renames onto it (atomic replace)
        return op[0] == "open" and op[1].startswith(PATH) and not op[1].startswith(BYS_PATH) and any(c in op[2] for c in "wax+")

    def save_starts(self) -> list:
        return [t for op, t in list(zip(self.vfs.log, self.vfs.log.times))[self.log_mark:] if self._is_write_open(op)]

    def saves_completed(self) -> int:
        """A save is complete when the file it wrote directly is closed, or when a sibling is renamed onto it."""
        n = 0
        open_w: set[str] = set()
        for op in list(self.vfs.log)[self.log_mark:]:
            if self._is_write_open(op):
                open_w.add(op[1])
            elif op[0] == "open":
                open_w.discard(op[1])
            elif op[0] == "close" and op[1] in open_w:
                open_w.discard(op[1])
                if op[1] == PATH:
                    n += 1
            elif op[0] in ("replace", "rename") and op[2] == PATH:
                n += 1
        return n

    def verdict(self, hang: bool) -> list:
        viols = []
        cfg = self.cfg

        def bad(k, what):
            viols.append((f"C16|{k}|body={cfg['body']}|connect={cfg['connect']}|disconnect={cfg['disconnect']}|{cfg.get('transport', 'script')}", f"{cfg}: {what}", None))

        try:
            if hang:
                bad("hang", f"no enabled event while the context is unfinished (entered={self.entered})")
                return viols
            kind, exc = self.result
            if cfg["connect"] in ("fail", "subscribe-fail"):
                if not (kind == "raise" and isinstance(exc, TransportError)):
                    bad("connect-error-not-propagated", f"connect failed but the context gave {kind} {exc!r}")
            elif cfg["body"] == "cancel" and not self.entered:
                # cancelled while entering (a connect timeout): nothing to save or disconnect, nothing may be left
                if not (kind == "raise" and isinstance(exc, asyncio.CancelledError)):
                    bad("entry-cancel-not-propagated", f"the task was cancelled while entering the context but it ended with {kind} {exc!r}")
            else:
                if not self.entered:
                    bad("not-entered", f"the context was never entered: {kind} {exc!r}")
                    return viols
                if cfg.get("file", "present") == "present" and self.seen_at_entry != [1]:
                    bad("file-not-loaded-on-entry", f"registry at entry was {self.seen_at_entry}, the file holds node 1")
                if cfg.get("file") == "large" and self.seen_at_entry != [1, *range(101, 100 + LARGE)]:
                    bad("file-not-loaded-on-entry", f"registry at entry was {self.seen_at_entry}, the file holds node 1 and {LARGE - 1} more")
                if not self.disconnected():
                    bad("not-disconnected", f"the transport was not disconnected (calls {self.t.calls})")
                if kind == "raise":
                    if isinstance(exc, asyncio.CancelledError):
                        if cfg["body"] != "cancel":
                            bad("cancelled-error-escaped", "CancelledError left the async with block")
                    elif isinstance(exc, RuntimeError) and str(exc) == "body":
                        if cfg["body"] != "raise":
                            bad("phantom-body-error", "body error without a raising body")
                    elif isinstance(exc, AIOMySensorsError) and cfg["disconnect"] == "fail" and cfg.get("transport", "script") == "script":
                        pass  # the script transport's disconnect raises a library error; the built-in ones absorb theirs
                    else:
                        bad(f"foreign-exception:{type(exc).__name__}", f"{exc!r} left the async with block")
                else:
                    if cfg["body"] == "raise":
                        bad("body-error-swallowed", "the body raised but the context returned normally")
                # final file == registry as mutated by the body
                content = self.vfs.files.get(PATH)
                self._cm.__exit__(None, None, None)
                self._cm = None
                self.loop.leave()
                k2, v2, loaded, _ = pers.load_bytes(None if content is None else bytes(content))
                self.loop.enter()
                if k2 != "ok":
                    bad("final-file-unreadable", f"after exit the file does not load: {v2!r}; content {bytes(content or b'')[:60]!r}")
                elif canon_nodes(loaded) != canon_nodes(self.gw.nodes):
                    bad("final-file-stale", f"after exit the file holds nodes {sorted(loaded)} but the registry is {sorted(self.gw.nodes)}")
                # saved once entered, without waiting for a timer
                if self.saves_done_at_quiescent_exit is not None and self.saves_done_at_quiescent_exit < 1:
                    bad("no-save-after-entry", "the body ran until nothing was left to do (no timer fired) and no save had completed")
                # at least every 15 minutes while the body runs
                if self.exit_time is not None:
                    starts = [t for t in self.save_starts() if self.enter_time is None or t >= 0]
                    pts = [t for t in starts if t <= self.exit_time] + [self.exit_time]
                    prev = self.enter_time
                    for t in pts:
                        if t - prev > INTERVAL + 1e-6:
                            bad("save-interval-exceeded", f"no save started between t={prev} and t={t} (virtual seconds) while the body was running")
                            break
                        prev = max(prev, t)
            # leftovers
            if self.left_at_exit:
                bad("task-left-running", f"background tasks still running when the context had been left: {self.left_at_exit}")
            if self.bys is not None:
                # the other gateway is still inside its context: its periodic saves must go on
                def bys_saves():
                    return sum(1 for op in self.vfs.log if op[0] == "open" and op[1].startswith(BYS_PATH) and any(c in op[2] for c in "wax+"))

                with fsshim.installed(self.vfs):
                    self.bys.nodes[51] = Node(51, 17, "2.0")
                    self._drain()
                    n0 = bys_saves()
                    t_before = self.loop.time()
                    for _ in range(2):
                        if self.loop.next_timer() is not None:
                            self.loop.advance()
                        self._drain()
                    if bys_saves() == n0:
                        bad("bystander-saver-stopped", f"another gateway of the process, still inside its context, made no save during {self.loop.time() - t_before:.0f} virtual seconds after this one left")
                    t0 = fsshim.run_to_completion(self.loop, self.bys.__aexit__(None, None, None))
                    self._drain()
                    if t0.exception() is not None:
                        bad(f"bystander-exit-raised:{type(t0.exception()).__name__}", f"the other gateway's exit raised {t0.exception()!r}")
            left = [t for t in self.loop.tasks() if not t.done()]
            if left:
                names = sorted(getattr(t.get_coro(), "__qualname__", repr(t)) for t in left)
                bad("task-left-running", f"background tasks still running after the context ended: {names}")
            if self.dwell is not None:
                self.dwell.cancel()
            if self.loop.next_timer() is not None:
                bad("timer-left", "a timer is still scheduled after the context ended")
            unret = [c for c in self.loop.collect_unretrieved()]
            for c in unret:
                e = c.get("exception")
                bad(f"loop-error:{type(e).__name__}", f"event loop exception handler called: {c.get('message')} {e!r}")
        finally:
            if self._cm is not None:
                self._cm.__exit__(None, None, None)
            for p in self.patches:
                p.stop()
        return viols

    def observation(self):
        kind, exc = self.result if self.result else (None, None)
        return {
            "result": [kind, type(exc).__name__ if exc is not None else None],
            "ops": [(o[0], o[2] if o[0] == "open" else None) for o in self.vfs.log],
            "calls": list(self.t.calls),
            "file": bytes(self.vfs.files.get(PATH, b"")).decode("utf-8", "replace")[:2000],
        }


# -- transports -------------------------------------------------------------------------


class _StreamWriterFake:
    def __init__(self, fail_close: bool) -> None:
        self.closed = False
        self.fail_close = fail_close
        self.data = b""

    def write(self, b: bytes) -> None:
        self.data += b

    async def drain(self) -> None:
        return None

    def close(self) -> None:
        self.closed = True
        if self.fail_close:
            raise OSError("injected close failure")

    async def wait_closed(self) -> None:
        return None


def make_transport(cfg, loop, sc):
    kind = cfg.get("transport", "script")
    sc.patches = []
    sc.disconnected = lambda: "disconnect" in sc.t.calls
    if kind == "script":
        t = AsyncScriptTransport(loop)
        if cfg.get("cancel_entry"):
            plain_connect = t.connect

            async def gated_connect():
                await sc.wait_gate("connect")
                await plain_connect()

            t.connect = gated_connect
        if cfg["connect"] == "fail":
            t.connect_error = TransportError("injected connect failure")
        if cfg["disconnect"] == "fail":
            t.disconnect_error = TransportError("injected disconnect failure")
        return t
    if kind in ("tcp", "serial"):
        from aiomysensors.transport.serial import SerialTransport
        from aiomysensors.transport.tcp import TCPTransport

        writer = _StreamWriterFake(cfg["disconnect"] == "fail")
        reader = asyncio.StreamReader(loop=loop)
        if cfg.get("body_read") == "eof":
            reader.feed_eof()

        async def factory(*a, **kw):
            await sc.wait_gate("open")
            if cfg["connect"] == "fail":
                raise ConnectionRefusedError("injected connect failure")
            return reader, writer

        target = "aiomysensors.transport.tcp.asyncio.open_connection" if kind == "tcp" else "aiomysensors.transport.serial.open_serial_connection"
        p = patch(target, factory)
        p.start()
        sc.patches.append(p)
        sc.disconnected = lambda: writer.closed
        t = TCPTransport("h") if kind == "tcp" else SerialTransport("p")
        t.calls = []
        return t
    if kind == "mqtt":
        from aiomqtt import MqttError
        from aiomysensors.transport.mqtt import MQTTClient

        from ..mqttfake import FakeClient

        p = patch("aiomysensors.transport.mqtt.AsyncioClient", FakeClient)
        p.start()
        sc.patches.append(p)
        FakeClient.instances.clear()
        FakeClient.plan = {}
        FakeClient.gates = []
        FakeClient.suspend = {"connect", "subscribe"} if cfg.get("cancel_entry") else set()
        if cfg["connect"] == "fail":
            FakeClient.plan["connect"] = MqttError("injected connect failure")
        if cfg["connect"] == "subscribe-fail":
            FakeClient.plan["subscribe"] = MqttError("injected subscribe failure")
        if cfg["disconnect"] == "fail":
            FakeClient.plan["exit"] = MqttError("injected disconnect failure")
        sc.disconnected = lambda: bool(FakeClient.instances) and FakeClient.instances[-1].exited == 1
        t = MQTTClient("broker")
        t.calls = []
        return t
    raise ValueError(kind)


def transport_events(sc) -> list:
    if sc.cfg.get("cancel_entry") and sc.connect_gates():
        return ["connect-step"]
    return []


def fire_transport_event(sc, label) -> None:
    if label == "connect-step":
        g = sc.connect_gates()[0]
        if sc.cfg.get("transport") == "mqtt":
            from ..mqttfake import FakeClient

            FakeClient.gates.remove(g)
        else:
            sc.gates.remove(g)
        if not g[1].done():
            g[1].set_result(None)
        return
    raise core.HarnessError(f"unknown event {label}")


def make_scenario(cfg, loop):
    return Scenario(cfg, loop)


def configs(ctx: core.Ctx) -> list:
    out = []
    for body in ("return", "raise"):
        for disconnect in ("ok", "fail"):
            out.append({"body": body, "connect": "ok", "disconnect": disconnect, "file": "present"})
    out.append({"body": "return", "connect": "fail", "disconnect": "ok", "file": "present"})
    out.append({"body": "return", "connect": "ok", "disconnect": "ok", "file": "missing"})
    out.append({"body": "raise", "connect": "ok", "disconnect": "ok", "file": "missing"})
    for o in list(out):
        o["transport"] = "script"
    # the built-in transport kinds, through the seams the repo's own tests patch
    for kind in ("tcp", "serial", "mqtt"):
        for body in ("return", "raise"):
            for disconnect in ("ok", "fail"):
                out.append({"body": body, "connect": "ok", "disconnect": disconnect, "file": "present", "transport": kind})
        out.append({"body": "return", "connect": "fail", "disconnect": "ok", "file": "present", "transport": kind})
    out.append({"body": "return", "connect": "subscribe-fail", "disconnect": "ok", "file": "present", "transport": "mqtt"})
    for kind in ("tcp", "serial"):
        for body in ("return", "raise"):
            out.append({"body": body, "connect": "ok", "disconnect": "ok", "file": "present", "transport": kind, "body_read": "eof"})
    # a big registry in the file
    out.append({"body": "return", "connect": "ok", "disconnect": "ok", "file": "large", "transport": "script", "max_clock": 0 if ctx.quick else 1, "mutations": 1})
    if not ctx.quick:
        out.append({"body": "raise", "connect": "ok", "disconnect": "ok", "file": "large", "transport": "script", "max_clock": 1, "mutations": 1})
        out.append({"body": "return", "connect": "ok", "disconnect": "ok", "file": "present", "transport": "script", "max_clock": 1, "mutations": 2})
    # the task inside the context is cancelled from outside (Task.cancel), for every transport kind
    for kind in ("script", "tcp", "serial", "mqtt"):
        for disconnect in ("ok", "fail"):
            out.append({"body": "cancel", "connect": "ok", "disconnect": disconnect, "file": "present", "transport": kind, "max_clock": 1})
    # ... also while the context is still being entered (a connect that waits for the peer and is timed out)
    for kind in ("script", "tcp", "serial", "mqtt"):
        out.append({"body": "cancel", "connect": "ok", "disconnect": "ok", "file": "present", "transport": kind, "max_clock": 0, "cancel_entry": True})
    # the same gateway object is entered a second time; another gateway is inside its own context meanwhile
    out.append({"body": "return", "connect": "ok", "disconnect": "ok", "file": "present", "transport": "script", "earlier": "immediate"})
    out.append({"body": "raise", "connect": "ok", "disconnect": "ok", "file": "missing", "transport": "script", "earlier": "immediate"})
    out.append({"body": "return", "connect": "ok", "disconnect": "ok", "file": "present", "transport": "script", "earlier": "save-failed", "max_clock": 1})
    # eleventh wave: the body of the second context (and of a first one) stays inside for more than one save interval by
    # a timer of its own - the periodic save must come whether or not the library has a timer pending
    out.append({"body": "return", "connect": "ok", "disconnect": "ok", "file": "present", "transport": "script", "earlier": "immediate", "dwell": True, "max_clock": 2})
    out.append({"body": "return", "connect": "ok", "disconnect": "ok", "file": "present", "transport": "script", "dwell": True, "max_clock": 2})
    out.append({"body": "return", "connect": "ok", "disconnect": "ok", "file": "present", "transport": "script", "bystander": True, "max_clock": 1})
    out.append({"body": "return", "connect": "fail", "disconnect": "ok", "file": "present", "transport": "script", "bystander": True, "max_clock": 1})
    return out


def run(ctx: core.Ctx) -> core.Report:
    K = 2 if ctx.quick else 99
    cfgs = configs(ctx)
    res = explore.explore(ctx, MOD, [c for c in cfgs if c["transport"] == "script" and not c.get("bystander")], K)
    # with a second gateway inside its own context (two savers): all orders at quiescent points, no early firings
    resb = explore.explore(ctx, MOD, [c for c in cfgs if c.get("bystander")], 0 if ctx.quick else 1)
    for k in ("executions", "nontrivial", "hangs"):
        res[k] += resb[k]
    res["distinct_outcomes"] += resb["distinct_outcomes"]
    res["violations"] += resb["violations"]
    # built-in transports: same scenario through the real TCP/serial/MQTT classes (quick: at most 1 early firing)
    K2 = 1 if ctx.quick else 3
    res2 = explore.explore(ctx, MOD, [c for c in cfgs if c["transport"] != "script" and not (c["transport"] == "mqtt" and c.get("cancel_entry"))], K2)
    # MQTT connect = broker handshake + five subscriptions in flight at once: the cancellation may land between any two of
    # them; quick explores all orders at quiescent points, thorough one early firing as well
    res3 = explore.explore(ctx, MOD, [c for c in cfgs if c["transport"] == "mqtt" and c.get("cancel_entry")], 0 if ctx.quick else 1)
    for k in ("executions", "nontrivial", "hangs"):
        res2[k] += res3[k]
    res2["distinct_outcomes"] += res3["distinct_outcomes"]
    res2["violations"] += res3["violations"]
    for k in ("executions", "nontrivial", "hangs"):
        res[k] += res2[k]
    res["distinct_outcomes"] += res2["distinct_outcomes"]
    res["max_points"] = max(res["max_points"], res2["max_points"])
    res["violations"] += res2["violations"]
    cov = {
        "evaluations": res["executions"],
        "distinct_nontrivial": res["nontrivial"],
        "distinct_outcomes": res["distinct_outcomes"],
        "rule": "every execution is a distinct schedule of {complete the next executor job (open/read/write/close of a load or save), advance the clock to the next timer (<= 3 firings), let the body handle a message that adds a node (0-2 times), let the body exit} x body returns / raises / is cancelled from outside x connect/disconnect ok/fail x small / 70-node file; a cancelled executor job branches into 'takes effect' and 'dropped'; non-trivial = the exit lands while the saver has a file operation or a step pending, or a cancelled job exists",
        "exhaustive": True,
        "bounds": {"K_deviations": K if K < 99 else "unbounded: every schedule (script transport)", "K_deviations_builtin_transports": K2, "clock_firings": MAX_CLOCK, "configs": len(configs(ctx)), "max_choice_points": res["max_points"]},
        "samples": [res["sample"]],
    }
    return core.Report(
        level="exploration",
        coverage=cov,
        violations=res["violations"],
        assumptions=[
            "executor jobs take effect in submission order, except that the next job may overtake the oldest pending one once (two pool threads in flight); a cancelled job either takes effect (worker already running it) or is dropped (still queued)",
            "virtual time only moves on an explicit clock event; horizon 3 timer firings (45 virtual minutes)",
            "in-memory file system behind aiofiles.threadpool.sync_open",
        ],
    )


def replay(data: dict) -> dict:
    return explore.replay(MOD, data)
