"""C13 — persistence round trip: load reads back every registry that save can write. E1 reachability + E3 grid."""

from __future__ import annotations

import itertools
import json

from aiomysensors.model.node import Child, Node

from .. import bfs, core, pers, refmodel as R
from ..harness import Session, canon_gateway, registry_view

MOD = __name__
IMPORT_MISSING, IMPORT_BAD, IMPORT_VALID = "/vfs/import-missing.json", "/vfs/import-bad.json", "/vfs/import-valid.json"
BIGT = "100000000000000000000"


def alphabet(version: str, thorough: bool) -> list:
    evs = [
        "1;255;0;0;17;2.0",
        "2;255;0;0;-1;",
        "4;255;0;0;0;x",
        f"3;255;0;0;{BIGT};é",
        "1;255;3;0;0;0",
        "1;255;3;0;0;100",
        "1;255;3;0;0;150",
        "1;255;3;0;0;-3",
        "1;255;3;0;0;55.5",
        "1;255;3;0;11;é",
        "1;255;3;0;11;\udcff\udc80",  # what a transport decoding with errors="surrogateescape" makes of Latin-1 bytes
        "1;255;3;0;11;a;b",
        "1;255;3;0;12;1.0",
        '1;3;0;0;6;désc "q"',
        "1;0;0;0;-1;",
        "4;0;0;0;0;",
        "2;254;0;0;3;x",
        "1;3;1;0;2;a;b",
        "1;3;1;0;2;a",
        '1;3;1;0;2;"q"',
        "1;3;1;0;-1;é",
        "1;0;1;0;47;",
        "255;255;3;0;3;",
    ]
    if R.is2x(version):
        evs += ["1;255;3;0;22;0", "1;255;3;0;22;4294967295", "1;255;3;0;22;-7"]
    if version == "2.2":
        evs += ["1;255;3;0;32;500"]
    if thorough:
        evs += ["0;255;0;0;18;" + version, "255;255;0;0;17;2.0", "2;254;1;0;0; lead", "1;255;3;0;12;"]
    return evs


def legacy_of(doc: dict) -> tuple:
    """(native document without the sleeping key, its equivalent in the legacy pymysensors layout)."""
    native = {}
    legacy = {}
    for k, nd in doc.items():
        nd = dict(nd)
        nd.pop("sleeping", None)
        native[k] = nd
        ld = {kk: vv for kk, vv in nd.items() if kk not in ("node_id", "node_type", "children")}
        ld["sensor_id"] = nd["node_id"]
        ld["type"] = nd["node_type"]
        if nd.get("sketch_name") == "":
            ld["sketch_name"] = None
        if nd.get("sketch_version") == "":
            ld["sketch_version"] = None
        ld["children"] = {}
        for ck, cd in nd.get("children", {}).items():
            lc = {kk: vv for kk, vv in cd.items() if kk not in ("child_id", "child_type")}
            lc["id"] = cd["child_id"]
            lc["type"] = cd["child_type"]
            ld["children"][ck] = lc
        legacy[k] = ld
    return native, legacy


def roundtrip(nodes: dict, persistence=None, vfs=None) -> list:
    """save -> load into an empty registry -> compare. Returns [(kind, text)].
    With `persistence` the save is done by that (long-lived) Persistence object on its own file system."""
    out = []
    if persistence is not None:
        kind, val = pers.run(persistence.save, vfs)
    else:
        kind, val, vfs = pers.save_nodes(nodes)
    if kind != "ok":
        return [(f"save-failed:{type(val).__name__}", f"save raised {val!r}")]
    if pers.PATH not in vfs.files:
        return [("save-left-no-file", f"save returned normally but there is no file at the configured path; files: {sorted(vfs.files)}")]
    raw = bytes(vfs.files[pers.PATH])
    kind, val, loaded, _ = pers.load_bytes(raw)
    if kind != "ok":
        return [(f"saved-file-rejected:{type(val).__name__}", f"the file written by save is rejected by load: {type(val).__name__}: {str(val)[:200]}")]
    a, b = registry_view(nodes), registry_view(loaded)
    if a != b:
        diffs = []
        for nid in sorted(set(a) | set(b)):
            if a.get(nid) != b.get(nid):
                diffs.append(f"node {nid}: saved {a.get(nid)} loaded {b.get(nid)}")
        out.append(("roundtrip-differs", "; ".join(diffs)[:400]))
    else:
        for nid, n in loaded.items():
            if type(nid) is not int or any(type(c) is not int for c in n.children) or any(type(t) is not int for c in n.children.values() for t in c.values):
                out.append(("roundtrip-key-types", f"node {nid}: ids/value types are not ints after load"))
    # legacy layout must load to the same registry as its native equivalent
    try:
        doc = json.loads(raw)
    except ValueError as exc:
        return out + [("saved-file-not-json", str(exc))]
    native, legacy = legacy_of(doc)
    k1, v1, n1, _ = pers.load_bytes(json.dumps(native).encode())
    k2, v2, n2, _ = pers.load_bytes(json.dumps(legacy).encode())
    if k1 == "ok" and k2 != "ok":
        out.append((f"legacy-rejected:{type(v2).__name__}", f"legacy-layout equivalent rejected: {str(v2)[:200]}"))
    elif k1 == "ok" and registry_view(n1) != registry_view(n2):
        out.append(("legacy-differs", f"legacy layout loads to {registry_view(n2)} but native to {registry_view(n1)}"[:400]))
    return out


class Monitor:
    def __init__(self, cfg: dict) -> None:
        self.version = cfg["version"]
        from aiomysensors.gateway import Config

        from .. import fsshim

        # the gateway's own Persistence object does every save of the history (a cache inside it would show)
        self.s = Session(self.version, Config(persistence_file=pers.PATH))
        self.vfs = fsshim.VFS()
        self._alpha = alphabet(self.version, cfg.get("thorough", False))
        self.explicit = bool(cfg.get("explicit"))
        if self.explicit:
            self._alpha = ["1;255;0;0;17;2.0", "1;3;0;0;6;a", "1;4;0;0;6;b", "1;3;1;0;2;v", "1;4;1;0;2;w", "<save>"]
            if cfg.get("imports"):
                # the application also loads other files through the same object (load takes a path): one that
                # does not exist, one that is not a registry, one that holds a node
                self._alpha = ["1;255;0;0;17;2.0", "1;3;0;0;6;a", "1;3;1;0;2;v", "<save>", "<import:missing>", "<import:bad>", "<import:valid>"]
                self.vfs.files[IMPORT_BAD] = bytearray(b'{"1": {"node_id": "x"}}')
                self.vfs.files[IMPORT_VALID] = bytearray(b'{"9": {"node_id": 9, "node_type": 17, "protocol_version": "2.0", "children": {}, "sketch_name": "", "sketch_version": "", "battery_level": 0, "heartbeat": 0, "sleeping": false}}')
        self.nontrivial = False
        self.last_desc = None

    def events(self) -> list:
        return self._alpha

    def apply(self, line: str) -> list:
        if line.startswith("<import:"):
            which = line[8:-1]
            path = {"missing": IMPORT_MISSING, "bad": IMPORT_BAD, "valid": IMPORT_VALID}[which]
            if which == "missing":
                self.vfs.files.pop(IMPORT_MISSING, None)
            p = self.s.gateway.persistence
            kind, val = pers.run(lambda: p.load(path), self.vfs)
            self.last_desc = {"import": which, "result": [kind, type(val).__name__]}
            self.nontrivial = False
            return []
        if self.explicit and line != "<save>":
            # saves happen only when asked for: the file may lag behind the registry for several messages
            out = self.s.line(line)
            self.last_desc = out.describe()
            self.nontrivial = False
            return []
        if line == "<save>":
            nodes = self.s.gateway.nodes
            self.last_desc = {"save": sorted(nodes)}
            self.nontrivial = True
            viols = []
            for kind, text in roundtrip(nodes, self.s.gateway.persistence, self.vfs):
                viols.append((f"C13|{kind}", f"[{self.version}] explicit save with registry {nodes!r}: {text}"[:900], None))
            return viols
        out = self.s.line(line)
        self.last_desc = out.describe()
        viols = []
        nodes = self.s.gateway.nodes
        self.nontrivial = bool(nodes)
        f = line.split(";")
        for kind, text in roundtrip(nodes, self.s.gateway.persistence, self.vfs):
            viols.append((f"C13|{kind}", f"[{self.version}] after line {line!r} registry {nodes!r}: {text}"[:900], None))
        if not viols and nodes:
            # the saving object itself reads the file back into its (emptied) registry, on a copy of the world
            try:
                twin = bfs.fork(self)
                want = registry_view(twin.s.gateway.nodes)
                twin.s.gateway.nodes.clear()
                kind, val = pers.run(twin.s.gateway.persistence.load, twin.vfs)
                got = registry_view(twin.s.gateway.nodes)
                if kind != "ok":
                    viols.append((f"C13|same-object-load-failed:{type(val).__name__}", f"[{self.version}] after line {line!r}: the saving Persistence object cannot load its own file: {val!r}", None))
                elif got != want:
                    viols.append(("C13|same-object-load-differs", f"[{self.version}] after line {line!r}: the saving Persistence object loaded {got} into its emptied registry, saved registry was {want}"[:900], None))
            except core.HarnessError:
                raise
        return viols

    def key(self):
        if self.explicit:
            from ..harness import walk

            p = self.s.gateway.persistence
            return (canon_gateway(self.s.gateway), bytes(self.vfs.files.get(pers.PATH, b"")), walk({k: v for k, v in vars(p).items() if k not in ("nodes", "_cancel_save")}))
        return canon_gateway(self.s.gateway)


def make(cfg):
    return Monitor(cfg)


def session_case(job) -> list:
    """A session that stays inside the gateway context for several save intervals while messages keep changing the
    registry: whenever the periodic save has run, the file loads to the registry as it was at that save."""
    from aiomysensors.gateway import Config

    from .. import fsshim
    from ..vloop import VLoop

    version, rounds = job
    viols = []
    loop = VLoop()
    vfs = fsshim.VFS()
    s = Session(version, Config(persistence_file=pers.PATH))
    gw = s.gateway

    def settle():
        for _ in range(20000):
            if loop.ready_count():
                loop.step()
            elif loop.pending_jobs():
                loop.run_job(loop.pending_jobs()[0])
            else:
                return

    def saves_done():
        return sum(1 for op in vfs.log if op[0] == "close" and op[1] == pers.PATH) + sum(1 for op in vfs.log if op[0] in ("replace", "rename") and op[2] == pers.PATH)

    loop.enter()
    try:
        with fsshim.installed(vfs):
            t = loop.create_task(gw.__aenter__())
            settle()
            if not t.done() or t.exception() is not None:
                return [("C13|session-enter-failed", f"[{version}] entering the context gave {t!r}", {"session": list(job)})]
            lines = ["1;255;0;0;17;2.0", "1;3;0;0;6;a", "1;3;1;0;2;v1", "2;255;0;0;17;2.1", "2;0;0;0;3;", "2;0;1;0;2;on", "1;3;1;0;2;v2", "1;255;3;0;0;77", "1;3;1;0;0;21.5"]
            for rnd in range(rounds):
                for line in lines[rnd * 3 : rnd * 3 + 3]:
                    s.line(line)  # handled by the application's listener (sequential driver, same loop)
                before = saves_done()
                want = registry_view(gw.nodes)
                if loop.next_timer() is None:
                    viols.append(("C13|session-no-timer", f"[{version}] inside the context no save is scheduled (round {rnd})", {"session": list(job)}))
                    break
                loop.advance()
                settle()
                if saves_done() == before:
                    viols.append(("C13|session-no-periodic-save", f"[{version}] round {rnd}: the save timer fired but no save completed", {"session": list(job)}))
                    break
                loop.leave()
                kind, val, loaded, _ = pers.load_bytes(bytes(vfs.files.get(pers.PATH, b"")))
                loop.enter()
                if kind != "ok":
                    viols.append(("C13|session-file-rejected", f"[{version}] round {rnd}: the periodically saved file is rejected by load: {val!r}", {"session": list(job)}))
                    break
                if registry_view(loaded) != want:
                    viols.append(("C13|session-file-stale", f"[{version}] after save interval #{rnd + 1} of a running session the file loads to nodes {sorted(loaded)} with {sum(len(n.children) for n in loaded.values())} children; the registry at that save had nodes {sorted(want)}: {[k for k in want if registry_view(loaded).get(k) != want[k]]} differ", {"session": list(job)}))
                    break
            t2 = loop.create_task(gw.__aexit__(None, None, None))
            settle()
    finally:
        loop.shutdown()
    return viols


def many_nodes_case(job) -> list:
    """Registries as full as the id space allows (ids 0-255 all present; one missing at either end) round-trip."""
    lo, hi = job
    nodes = {n: Node(n, 17, "2.0", children={0: Child(0, 6, values={0: str(n)})} if n % 50 == 0 else {}) for n in range(lo, hi + 1)}
    return [(f"C13|many-nodes-{k}", f"registry with ids {lo}..{hi} ({len(nodes)} nodes): {t}"[:600], {"many_nodes": list(job)}) for k, t in roundtrip(nodes) if not k.startswith("legacy")]


def write_fault_case(job) -> list:
    """A save meets an OS-level error (of several classes, at open / write / close, possibly after a short write):
    it may fail with the persistence write error - but if it returns normally, the file is a file written by save
    and must load back to the registry."""
    from aiomysensors.exceptions import PersistenceWriteError
    from aiomysensors.persistence import Persistence

    from .. import fsshim

    excn, op, short, big = job
    exc = {"OSError": OSError(5, "I/O error"), "TimeoutError": TimeoutError(110, "timed out"), "BlockingIOError": BlockingIOError(11, "would block"),
           "InterruptedError": InterruptedError(4, "interrupted"), "PermissionError": PermissionError(13, "denied")}[excn]
    nodes = {1: Node(1, 17, "2.0", children={3: Child(3, 6, values={2: "a"})})}
    if big:
        for n in range(2, 60):
            nodes[n] = Node(n, 17, "2.0", children={c: Child(c, 6, description=f"child {c} of {n}", values={0: "21.5", 2: "on"}) for c in range(4)}, sketch_name=f"sketch {n}")
    viols = []
    for existing in (False, True):
        vfs = fsshim.VFS()
        p = Persistence(nodes, pers.PATH)
        if existing:
            kind, val = pers.run(Persistence({7: Node(7, 17, "1.4")}, pers.PATH).save, vfs)
            assert kind == "ok", val
        vfs.fail[op] = (exc, short) if op == "write" and short else exc
        kind, val = pers.run(p.save, vfs)
        consumed = op not in vfs.fail
        vfs.fail.clear()
        if kind == "raise" and isinstance(val, PersistenceWriteError):
            continue
        rep = {"write_fault": list(job)}
        if kind != "ok":
            viols.append((f"C13|write-fault-foreign-exception:{type(val).__name__}", f"save meeting {excn} at {op} (after {short} bytes, {'large' if big else 'small'} registry): raised {val!r} instead of the persistence write error", rep))
            continue
        if not consumed:
            continue  # the fault position was never reached (e.g. a small registry is written at close): an ordinary save
        kind2, val2, loaded, _ = pers.load_bytes(bytes(vfs.files.get(pers.PATH, b"")))
        if kind2 != "ok":
            viols.append(("C13|write-fault-saved-file-rejected", f"save meeting {excn} at {op} (after {short} bytes, {'large' if big else 'small'} registry, file {'existed' if existing else 'new'}) returned normally, but the file it wrote is rejected by load: {str(val2)[:200]}", rep))
        elif registry_view(loaded) != registry_view(nodes):
            viols.append(("C13|write-fault-roundtrip-differs", f"save meeting {excn} at {op} returned normally, but the file loads to nodes {sorted(loaded)} instead of {sorted(nodes)}", rep))
    return viols


def overlap_case(job) -> list:
    """A save is in progress (k of its file operations done) when a message grows the registry and save is
    called again on the same Persistence object (the scheduled saver and an explicit save overlap). File
    operations complete in submission order. Once everything has finished the file must load to the registry
    of the second call."""
    from aiomysensors.persistence import Persistence

    from .. import fsshim
    from ..vloop import VLoop

    k, variant, existing = job
    nodes = {1: Node(1, 17, "2.0", children={3: Child(3, 6, values={2: "a"})})}
    vfs = fsshim.VFS()
    p = Persistence(nodes, pers.PATH)
    if existing:
        kind, val = pers.run(p.save, vfs)
        assert kind == "ok", val
    loop = VLoop()
    loop.enter()
    viols = []

    def bad(key, what):
        viols.append((f"C13|overlap-{key}", f"save called again after {k} file operations of a running save ({variant}, file {'exists' if existing else 'missing'}): {what}"[:900], {"overlap": [k, variant, existing]}))

    try:
        with fsshim.installed(vfs):
            t1 = loop.create_task(p.save())
            loop.run_ready()
            done = 0
            while done < k and loop.pending_jobs():
                loop.run_job(loop.pending_jobs()[0])
                done += 1
                loop.run_ready()
            if done < k:
                return []
            if variant == "node":
                nodes[2] = Node(2, 17, "2.1")
            elif variant == "child":
                nodes[1].children[4] = Child(4, 3, description="new")
            elif variant == "value":
                nodes[1].children[3].values[3] = "added"
            else:
                nodes[1].children[3].values[2] = "a much longer value than before"
            want = registry_view(nodes)
            t2 = loop.create_task(p.save())
            for _ in range(20000):
                if loop.ready_count():
                    loop.step()
                elif loop.pending_jobs():
                    loop.run_job(loop.pending_jobs()[0])
                else:
                    break
            for name, t in (("first", t1), ("second", t2)):
                if not t.done():
                    bad("save-never-finished", f"the {name} save did not finish")
                elif t.cancelled() or t.exception() is not None:
                    bad(f"save-raised", f"the {name} save ended with {'cancellation' if t.cancelled() else repr(t.exception())}")
    finally:
        loop.shutdown()
    if viols:
        return viols
    kind, val, loaded, _ = pers.load_bytes(bytes(vfs.files.get(pers.PATH, b"")))
    if kind != "ok":
        bad("file-unreadable", f"the file is rejected by load: {val!r}")
    elif registry_view(loaded) != want:
        bad("file-stale", f"the file loads to {registry_view(loaded)}, the registry at the second save was {want}")
    return viols


# -- directly constructed registries ------------------------------------------------


def grid(quick: bool) -> list:
    types = [17, 0, -1, int(BIGT)]
    versions = ["2.0", "", "é"]
    names = ["", "é", "a;b", "x\udce9"]
    batteries = [0, 100, 55]
    hbs = [0, 4294967295, -1]
    sleeps = [False, True]
    childsets = [
        {},
        {3: Child(3, 6, description='d "q"', values={2: "a;b", -1: "é"})},
        {0: Child(0, -1), 254: Child(254, 3, description="é", values={47: ""})},
        {0: Child(0, 0, values={0: "0"})},
    ]
    out = []
    for t, v, nm, b, hb, sl, ci in itertools.product(types, versions, names, batteries, hbs, sleeps, range(len(childsets))):
        if quick and (hash((t, v, nm, b, hb, sl, ci)) % 4):
            pass
        out.append((t, v, nm, b, hb, sl, ci))
    return out, childsets


def job_grid(chunk):
    _, childsets = grid(False)
    viols = []
    import copy

    for i, (t, v, nm, b, hb, sl, ci) in enumerate(chunk):
        nid = (0, 1, 254, 255)[i % 4]
        nodes = {nid: Node(nid, t, v, children=copy.deepcopy(childsets[ci]), sketch_name=nm, sketch_version=nm, battery_level=b, heartbeat=hb, sleeping=sl)}
        for kind, text in roundtrip(nodes):
            viols.append((f"C13|{kind}", f"constructed registry {nodes!r}: {text}"[:900], {"grid": [t, v, nm, b, hb, sl, ci, nid]}))
    return len(chunk), viols


def run(ctx: core.Ctx) -> core.Report:
    if ctx.quick:
        cfgs = [{"version": "1.4"}, {"version": "2.2"}]
        depth = 4
    else:
        cfgs = [{"version": v, "thorough": True} for v in R.VERSIONS]
        depth = 5
    res = bfs.search(ctx, MOD, cfgs, max_depth=depth)
    eres = bfs.search(ctx, MOD, [{"version": "2.2", "explicit": True}], max_depth=6 if ctx.quick else 8)
    for k in ("states", "transitions"):
        res[k] += eres[k]
    res["violations"] += eres["violations"]
    ires = bfs.search(ctx, MOD, [{"version": "2.2", "explicit": True, "imports": True}], max_depth=5 if ctx.quick else 7)
    for k in ("states", "transitions"):
        res[k] += ires[k]
    res["violations"] += ires["violations"]
    ojobs = [(k, var, ex) for k in range(0, 5) for var in ("node", "child", "value", "longer") for ex in (True, False)]
    ores = core.pmap(overlap_case, ojobs, ctx.workers)
    fjobs = [(e, op, k, big) for e in ("OSError", "TimeoutError", "BlockingIOError", "InterruptedError", "PermissionError") for op in ("open", "write", "close") for k in ((0, 100, 4096) if op == "write" else (0,)) for big in (False, True)]
    ores += core.pmap(write_fault_case, fjobs, ctx.workers)
    ores += core.pmap(many_nodes_case, [(0, 255), (0, 254), (1, 255), (1, 254)], ctx.workers, chunksize=1)
    ores += core.pmap(session_case, [(v, 3) for v in (("1.4", "2.2") if ctx.quick else R.VERSIONS)], ctx.workers, chunksize=1)
    res["violations"] += [core.Violation(k, w, rep) for r in ores for k, w, rep in r]
    g, _ = grid(ctx.quick)
    chunks = [g[i : i + 60] for i in range(0, len(g), 60)]
    gres = core.pmap(job_grid, chunks, ctx.workers, chunksize=1)
    viols = res["violations"] + [core.Violation(k, w, rep) for r in gres for k, w, rep in r[1]]
    cov = {
        "states": res["states"],
        "transitions": res["transitions"] + len(g),
        "traces_validated_against_impl": res["transitions"] + len(g),
        "exhaustive": False,
        "constructed_registries": len(g),
        "rule": "every registry reachable in <= depth received messages over an alphabet with boundary payloads is saved by the real Persistence.save (real aiofiles, in-memory fs) and loaded into an empty registry by the real load; plus a full product grid of directly constructed nodes; plus the legacy-layout translation of every saved file; plus histories in which the same object loads other files by path (missing / invalid / valid) between messages and saves; plus a second save call overlapping a running one after 0-4 of its file operations while the registry grows; plus saves that meet one of five OSError classes at open / write (also after a short write of 100 / 4096 bytes) / close, small and 30 KB registries: normal return implies a loadable, equal file; plus sessions that stay inside the gateway context for three save intervals while messages change the registry (the file is loaded after each periodic save)",
        "bounds": {"depth": depth, "per_cfg": res["per_cfg"]},
        "samples": ctx.pick(res["samples"], 2) + [{"grid": list(g[ctx.seed % len(g)])}],
    }
    return core.Report(level="model_checking", coverage=cov, violations=viols, assumptions=["overlapping saves: file operations complete in submission order and the registry only grows in between (two writers whose operations interleave otherwise are outside the statement)", "legacy layout produced by a reference translator (sensor_id/type/id, null sketch fields, no sleeping key)", "depth-bounded reachability"])


def replay(data: dict) -> dict:
    if "many_nodes" in data:
        r = many_nodes_case(tuple(data["many_nodes"]))
        return {"violated": bool(r), "violations": [{"key": k, "what": w} for k, w, _ in r]}
    if "session" in data:
        r = session_case(tuple(data["session"]))
        return {"violated": bool(r), "violations": [{"key": k, "what": w} for k, w, _ in r]}
    if "write_fault" in data:
        r = write_fault_case(tuple(data["write_fault"]))
        return {"violated": bool(r), "violations": [{"key": k, "what": w} for k, w, _ in r]}
    if "overlap" in data:
        r = overlap_case(tuple(data["overlap"]))
        return {"violated": bool(r), "violations": [{"key": k, "what": w} for k, w, _ in r]}
    if "grid" in data:
        t, v, nm, b, hb, sl, ci, nid = data["grid"]
        _, childsets = grid(False)
        nodes = {nid: Node(nid, t, v, children=childsets[ci], sketch_name=nm, sketch_version=nm, battery_level=b, heartbeat=hb, sleeping=sl)}
        r = roundtrip(nodes)
        return {"violated": bool(r), "violations": [{"key": k, "what": w} for k, w in r]}
    return bfs.replay_history(MOD, data)
