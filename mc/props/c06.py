"""C06 — writes are exactly the specified reactions, addressed to the asker, unbuffered. E1."""

from __future__ import annotations

import calendar
import os
import time
from collections import Counter

from aiomysensors.gateway import Config

from .. import bfs, core, refmodel as R
from ..harness import Session, canon_gateway

MOD = __name__

from ..timefreeze import T_SUMMER, T_WINTER, TZS, default as unfreeze, freeze  # noqa: E402


def expected_time(tz: str, t: int) -> int:
    off = TZS[tz][0 if t == T_WINTER else 1]
    return t + off


def sweep_alphabet(cfg: dict) -> list:
    """Every type number of every command, from and about a known node/child and an unknown node."""
    evs = []
    for cmd in (0, 1, 2):
        for t in range(0, 61):
            evs.append(["line", [1, 3, cmd, 0, t, "v" if cmd != 2 else ""]])
            if t % 7 == 2:
                evs.append(["line", [1, 3, cmd, 1, t, "v" if cmd != 2 else ""]])
            evs.append(["line", [9, 3, cmd, 0, t, "v" if cmd != 2 else ""]])
    for t in range(0, 61):
        evs.append(["line", [2, 255, 0, 0, t, "2.0"]])
    for t in range(-1, 41):
        evs.append(["line", [1, 255, 3, 0, t, cfg["reply"] if t == R.I_VERSION else "0"]])
        evs.append(["line", [1, 255, 3, 1, t, cfg["reply"] if t == R.I_VERSION else "0"]])
    for t in range(-1, 9):
        evs.append(["line", [1, 255, 4, 0, t, "x"]])
    return evs


def alphabet(cfg: dict) -> list:
    if cfg.get("sweep"):
        return sweep_alphabet(cfg)
    v = cfg["version"]
    evs = [
        ["line", [255, 255, 3, 0, 3, ""]],
        ["line", [255, 7, 3, 0, 3, ""]],
        ["line", [1, 255, 3, 0, 6, ""]],
        ["line", [9, 255, 3, 0, 6, ""]],
        ["line", [1, 255, 3, 0, 1, ""]],
        ["line", [1, 3, 2, 0, 2, ""]],
        ["line", [1, 3, 2, 1, 2, ""]],
        ["line", [1, 255, 3, 1, 6, ""]],
        ["line", [0, 255, 3, 0, 14, "Gateway startup complete."]],
        ["line", [0, 255, 3, 0, 9, "log"]],
        ["line", [1, 3, 1, 0, 2, "v"]],
        ["reboot", 1],
        ["line", [1, 255, 3, 0, 0, "55"]],
        ["line", [1, 255, 3, 0, 11, "nm"]],
        ["line", [1, 255, 0, 0, 17, "2.0"]],
        ["line", [1, 3, 0, 0, 3, ""]],
        ["line", [1, 255, 3, 0, 22, "0"]],
        ["line", [1, 255, 3, 0, 32, "0"]],
        ["line", [1, 255, 3, 0, 40, ""]],
        ["line", [9, 3, 1, 0, 2, "v"]],
        ["line", [1, 255, 4, 0, 0, "fw"]],
        ["send", [1, 3, 1, 0, 2, "w"]],  # the application sends a set (parked if node 1 is sleeping: C07)
        ["metric"],  # the application flips Config.metric on the live gateway
        ["line", [1, 255, 3, 0, 13, ""]],  # a reboot message RECEIVED from a node: nothing to react to
    ]
    if v is None:
        evs.append(["line", [0, 255, 3, 0, 2, cfg["reply"]]])
        evs.append(["line", [0, 255, 0, 0, 18, cfg["reply"]]])
        evs.append(["line", [0, 255, 3, 0, 2, "junk"]])
    return evs


def norm(line: str) -> str:
    """Normalise an id response's payload (the id itself is C11's business)."""
    f = line.rstrip("\n").split(";", 5)
    if len(f) == 6 and f[2] == "3" and f[4] == "4":
        return ";".join(f[:5]) + ";<id>\n"
    return line


def is_req19(line: str) -> bool:
    f = line.rstrip("\n").split(";", 5)
    return len(f) == 6 and f[2] == "3" and f[4] == "19"


class Monitor:
    def __init__(self, cfg: dict) -> None:
        self.cfg = cfg
        self.v = cfg["version"]  # effective version in the model; None = unknown
        self.metric = cfg["metric"]
        self.tz, self.t = cfg["tz"], cfg["t"]
        freeze(self.tz, self.t)
        restore = cfg.get("restore")
        if restore:
            # nodes restored from a persistence file by the real load (e.g. a sleeping gateway node of an earlier session)
            from aiomysensors.model.node import Child, Node

            from .. import pers

            nodes = {n: Node(n, 18 if n == 0 else 17, ver, children={3: Child(3, 3, values={2: "v"})}, sleeping=sl) for n, ver, sl in restore}
            kind, val, vfs = pers.save_nodes(nodes)
            assert kind == "ok", val
            self.s = Session(self.v, Config(metric=self.metric, persistence_file=pers.PATH))
            kind, val = pers.run(self.s.gateway.persistence.load, vfs)
            assert kind == "ok", val
        else:
            self.s = Session(self.v, Config(metric=self.metric))
        self.model = R.RegistryModel()
        for n, ver, _sl in (cfg.get("restore") or []):
            self.model.nodes[n] = self.model.fresh(18 if n == 0 else 17, ver)
            self.model.nodes[n]["children"][3] = {"type": 3, "description": "", "values": {2: "v"}}
        self.parked: list[str] = []
        self.nontrivial = False
        self.last_desc = None
        self._alpha = alphabet(cfg)
        for ev in cfg.get("prefix", []):
            self.apply(ev)

    def events(self) -> list:
        return self._alpha

    def rules_version(self) -> str:
        return self.v or "1.4"

    def apply(self, ev: list) -> list:
        freeze(self.tz, self.t)
        s, gw = self.s, self.s.gateway
        viols = []
        if ev[0] == "reboot":
            node = gw.nodes.get(ev[1])
            if node is not None:
                node.reboot = True
            self.last_desc = {"reboot": ev[1], "applied": node is not None}
            self.nontrivial = False
            return viols
        if ev[0] == "metric":
            self.metric = not self.metric
            gw.config.metric = self.metric
            self.last_desc = {"metric": self.metric}
            self.nontrivial = False
            return viols
        if ev[0] == "send":
            from aiomysensors.model.message import Message

            out = s.send(Message(*ev[1]))
            self.last_desc = out.describe()
            self.nontrivial = False
            line = R.enc(*ev[1])
            if out.kind == "return" and not out.writes:
                self.parked = [l for l in self.parked if l.split(";")[:5] != line.split(";")[:5]] + [line]
            return viols
        f = tuple(ev[1])
        n, c, cmd, ack, t, p = f
        rv = self.rules_version()

        def bad(k, what):
            viols.append((f"C06|{k}|{cmd}/{t if cmd == 3 else '*'}", f"[version {self.v}, metric {self.metric}, tz {self.tz}] line {R.enc(*f)!r}: {what}", None))

        flagged = bool(getattr(gw.nodes.get(n), "reboot", False))
        version_unknown_before = self.v is None
        out = s.line(R.enc(*f).rstrip("\n"))
        self.last_desc = out.describe()

        supported = True
        if cmd == 3:
            supported = R.type_exists(rv, 3, t)
        must: Counter = Counter()
        may: Counter = Counter()
        if cmd == 3 and supported:
            if t == R.I_ID_REQUEST:
                must[f"{n};{c};3;0;4;<id>\n"] += 1
            elif t == R.I_CONFIG:
                must[R.enc(n, c, 3, 0, 6, "M" if self.metric else "I")] += 1
            elif t == R.I_TIME:
                must[R.enc(n, c, 3, 0, 1, str(expected_time(self.tz, self.t)))] += 1
            elif t == R.I_GATEWAY_READY and R.is2x(rv):
                must[R.enc(255, 255, 3, 0, 20, "")] += 1
        exp = None
        if cmd != 3 or supported:
            exp = self.model.expect(rv, f) if not (cmd == 3 and t == R.I_ID_REQUEST) else ("ok",)
        if cmd == 2 and exp == ("ok",):
            val = self.model.nodes[n]["children"][c]["values"].get(t)
            if val is not None:
                must[R.enc(n, c, 1, 0, t, val)] += 1
        if cmd == 1 and flagged:
            if exp == ("ok",):
                must[R.enc(n, 255, 3, 0, 13, "")] += 1
            else:
                may[R.enc(n, 255, 3, 0, 13, "")] += 1  # statement silent for a rejected set
        # version bookkeeping
        made_known = False
        if version_unknown_before and ((cmd == 3 and t == R.I_VERSION) or (cmd == 0 and c == 255 and n == 0)):
            sp = R.spec_protocol(p)
            if sp is not None and gw.protocol_version is not None:
                made_known = True
                self.v = sp
        if version_unknown_before and not made_known and not (cmd == 3 and t in (R.I_LOG_MESSAGE, R.I_GATEWAY_READY)):
            must[R.enc(0, 255, 3, 0, 2, "")] += 1
        # parked application commands released at a wake belong to C07; accept (and forget) them
        for w in out.writes:
            if w in self.parked:
                may[w] += 1
        self.parked = [l for l in self.parked if l not in out.writes]
        got = Counter(norm(w) for w in out.writes if not is_req19(w))
        self.nontrivial = bool(must)
        missing = must - got
        extra = got - must - may
        if missing:
            bad("reaction-missing", f"expected writes {sorted(must.elements())}, got {out.writes}")
        if extra:
            bad("unexpected-write", f"unexpected writes {sorted(extra.elements())} (expected {sorted(must.elements())})")
        failed_attempts = [l for l, ok in out.attempts if not ok]
        if failed_attempts:
            bad("harness", f"unexpected failed attempts {failed_attempts}")
        # registry model upkeep
        if out.kind == "yield" and exp == ("ok",):
            if cmd == 3 and t == R.I_ID_REQUEST:
                ids = [w.rstrip("\n").split(";", 5)[5] for w in out.writes if norm(w) != w]
                if len(ids) == 1 and R.PLAIN_INT.match(ids[0]):
                    self.model.placeholder(int(ids[0]))
            else:
                self.model.apply(rv, f)
        return viols

    def key(self):
        shape = tuple(
            sorted((n, tuple(sorted((c, tuple(sorted(d["values"].items()))) for c, d in nd["children"].items()))) for n, nd in self.model.nodes.items())
        )
        return (canon_gateway(self.s.gateway), shape, self.v, tuple(self.parked), self.metric)


def make(cfg):
    return Monitor(cfg)


class TimeoutScenario:
    """While the gateway's version is unknown every decoded message is followed by one version query - also when the
    application's wait for the next message times out while the reaction to that message is being written (the
    write in flight is abandoned; whatever else the handling owes is still owed)."""

    horizon = 3000

    def __init__(self, cfg: dict, loop) -> None:
        import asyncio

        from aiomysensors.gateway import Gateway

        from ..harness import AsyncScriptTransport, drive

        self.asyncio = asyncio
        self.cfg = cfg
        self.loop = loop
        t = self.t = AsyncScriptTransport(loop)
        gw = self.gw = Gateway(t, Config(metric=True))
        agen = gw.listen()
        for line in ("1;255;0;0;17;2.0", "1;3;0;0;3;", "1;3;1;0;2;v"):
            t.lines.append(line)
            drive(agen.__anext__())
        self.base = len(t.log)
        t.sync = False
        self.script = list(cfg["lines"])
        self.pos = 0
        self.budget = cfg.get("timeouts", 1)
        self.timed_out = False
        self.step_task = None
        self.nontrivial = False
        self.listener = loop.create_task(self._listen())

    async def _listen(self):
        from aiomysensors.exceptions import AIOMySensorsError

        agen = self.gw.listen()
        try:
            for _ in self.script:
                self.step_task = self.loop.create_task(agen.__anext__())
                try:
                    await self.step_task
                except AIOMySensorsError:
                    await agen.aclose()
                    agen = self.gw.listen()
                except self.asyncio.CancelledError:
                    if not self.timed_out:
                        raise
                    self.timed_out = False
                    await agen.aclose()
                    agen = self.gw.listen()
        finally:
            self.step_task = None
            await agen.aclose()

    def enabled(self) -> list:
        self.t.pending_writes[:] = [e for e in self.t.pending_writes if not e[0].done()]
        evs = []
        if self.pos < len(self.script) and self.t.pending_read is not None:
            evs.append("line")
        for i in range(len(self.t.pending_writes)):
            evs.append(f"write:{i}")
        if self.budget > 0 and self.t.pending_writes and self.step_task is not None and not self.step_task.done():
            evs.append("timeout")
        return evs

    def fire(self, label: str) -> None:
        if label == "line":
            self.t.deliver(self.script[self.pos])
            self.pos += 1
        elif label == "timeout":
            self.budget -= 1
            self.nontrivial = True
            self.timed_out = True
            self.step_task.cancel()
        else:
            self.t.complete_write(int(label.split(":")[1]))

    def finished(self) -> bool:
        return self.pos >= len(self.script) and self.listener.done() and self.loop.ready_count() == 0

    def verdict(self, hang: bool) -> list:
        viols = []

        def bad(k, what):
            viols.append((f"C06|timeout-{k}|3/2", f"version unknown, lines {self.script}: {what}", None))

        if hang:
            bad("hang", "no enabled event while the listener is unfinished")
            return viols
        if self.listener.cancelled() or self.listener.exception() is not None:
            bad("listener-failed", f"the listener ended with {self.listener!r}")
        log = self.t.log[self.base:]
        queries = [w for w in log if w == "0;255;3;0;2;\n"]
        if len(queries) != self.pos:
            bad("version-query-count", f"{self.pos} messages were decoded while the version was unknown, {len(queries)} version queries were issued; writes issued in order: {log}")
        return viols

    def observation(self):
        return {"log": list(self.t.log[self.base:])}


def make_scenario(cfg, loop):
    return TimeoutScenario(cfg, loop)


def two_step_job(job):
    """Any internal message from the gateway node (every type, three payloads), then each message that must be
    reacted to: the reaction is still the specified one (no hidden mode that a report can switch)."""
    version, ts = job
    viols = []
    n = 0
    triggers = [[255, 255, 3, 0, 3, ""], [1, 255, 3, 0, 6, ""], [1, 255, 3, 0, 1, ""], [1, 3, 2, 0, 2, ""]]
    base = [["line", [1, 255, 0, 0, 17, "2.0"]], ["line", [1, 3, 0, 0, 3, ""]], ["line", [1, 3, 1, 0, 2, "v"]]]
    for t in ts:
        if t == R.I_VERSION:
            continue
        for p in ("0", "1", ""):
            for sender in (0, 1):
                n += 1
                cfg = {"version": version, "metric": True, "tz": "PST8", "t": T_WINTER, "reply": "2.2.0"}
                mon = Monitor(cfg)
                hist = base + [["line", [sender, 255, 3, 0, t, p]]] + [["line", tr] for tr in triggers]
                for i, ev in enumerate(hist):
                    v = mon.apply(ev)
                    if i < len(base) + 1:
                        continue  # the reports themselves are judged by the sweep; here only what follows them
                    for k, w, _x in v:
                        viols.append((k + "|after-report", f"after the internal message {hist[len(base)][1]}: {w}", {"cfg": cfg, "history": hist[: i + 1], "extra": None}))
                    if v:
                        break
    return n, viols


def stored_type_job(job):
    """A value of EVERY value type number is reported, stored, and asked for again (also with the gateway's version
    becoming known only in between): the request is answered with the stored value."""
    version, ts = job
    viols = []
    n = 0
    for t in ts:
        for late in ((False, True) if version is None else (False,)):
            n += 1
            cfg = {"version": version, "metric": True, "tz": "PST8", "t": T_WINTER, "reply": "2.2.0"}
            mon = Monitor(cfg)
            hist = [["line", [1, 255, 0, 0, 17, "2.0"]], ["line", [1, 3, 0, 0, 3, ""]], ["line", [1, 3, 1, 0, t, "hello"]]]
            if late:
                hist.append(["line", [0, 255, 3, 0, 2, "2.2.0"]])
            hist.append(["line", [1, 3, 2, 0, t, ""]])
            for i, ev in enumerate(hist):
                v = mon.apply(ev)
                for k, w, _x in v:
                    viols.append((k + "|stored-type", f"value type {t}{' (version reported after the value was stored)' if late else ''}: {w}", {"cfg": cfg, "history": hist[: i + 1], "extra": None}))
                if v:
                    break
    return n, viols


def run(ctx: core.Ctx) -> core.Report:
    versions = [None, *R.VERSIONS]
    cfgs = []
    if ctx.quick:
        depth = 5
        for i, v in enumerate(versions):
            cfgs.append({"version": v, "metric": i % 2 == 0, "tz": "IST-5:30", "t": T_WINTER, "reply": "2.1.1"})
        cfgs.append({"version": None, "metric": False, "tz": "PST8", "t": T_SUMMER, "reply": "1.4.2"})
    else:
        depth = 7
        for v in versions:
            for metric in (True, False):
                cfgs.append({"version": v, "metric": metric, "tz": "IST-5:30", "t": T_WINTER, "reply": "2.2.0" if metric else "1.5.1"})
        cfgs.append({"version": None, "metric": False, "tz": "PST8", "t": T_SUMMER, "reply": "2.0.0"})
    res = bfs.search(ctx, MOD, cfgs, max_depth=depth)
    # deeper states: start from a node with a child and a stored value (three set-up messages)
    base3 = [["line", [1, 255, 0, 0, 17, "2.0"]], ["line", [1, 3, 0, 0, 3, ""]], ["line", [1, 3, 1, 0, 2, "v"]]]
    pcfgs = [{"version": v, "metric": True, "tz": "IST-5:30", "t": T_SUMMER, "reply": "2.2.0", "prefix": base3} for v in ([None, "2.1", "2.2"] if ctx.quick else versions)]
    # registries restored from persistence: a sleeping gateway node and a sleeping ordinary node, version unknown or known
    pcfgs += [{"version": v, "metric": True, "tz": "IST-5:30", "t": T_WINTER, "reply": "2.1.1", "restore": [[0, "2.1", True], [1, "2.1", True]]} for v in ([None, "2.1"] if ctx.quick else versions)]
    pres = bfs.search(ctx, MOD, pcfgs, max_depth=depth - 1)
    for k in ("states", "transitions", "nontrivial_transitions"):
        res[k] += pres[k]
    res["per_cfg"] += pres["per_cfg"]
    res["violations"] += pres["violations"]
    # single-step grid: time zones x instants x versions x metric (time and config replies)
    grid = []
    for v in versions:
        for tz in TZS:
            for t in (T_WINTER, T_SUMMER):
                for metric in (True, False):
                    grid.append({"version": v, "metric": metric, "tz": tz, "t": t, "reply": "2.2.0"})
    base = [["line", [1, 255, 0, 0, 17, "2.0"]], ["line", [1, 3, 0, 0, 3, ""]], ["line", [1, 3, 1, 0, 2, "v"]]]
    for v in versions:
        for pre in (base, base + [["reboot", 1]]):
            grid.append({"version": v, "metric": True, "tz": "PST8", "t": T_WINTER, "reply": "2.2.0", "sweep": True, "prefix": pre})
    gres = bfs.search_many(ctx, MOD, grid, 1)
    tjobs = [(v, list(range(i, min(i + 8, 61)))) for v in versions for i in range(0, 61, 8)]
    tres = core.pmap(stored_type_job, tjobs, ctx.workers, chunksize=1)
    tres += core.pmap(two_step_job, [(v, list(range(i, min(i + 6, 41)))) for v in ((None, "2.2") if ctx.quick else versions) for i in range(0, 41, 6)], ctx.workers, chunksize=1)
    from .. import explore

    xres = explore.explore(ctx, MOD, [{"lines": ls, "timeouts": 1} for ls in (["1;255;3;0;6;"], ["255;255;3;0;3;", "1;3;2;0;2;"], ["1;3;2;0;2;", "1;255;3;0;1;", "1;3;1;0;2;w"])], 1 if ctx.quick else 3)
    unfreeze()
    viols = res["violations"] + gres["violations"] + [core.Violation(k, w, rep) for r in tres for k, w, rep in r[1]] + xres["violations"]
    cov = {
        "states": res["states"] + gres["states"],
        "transitions": res["transitions"] + gres["transitions"],
        "traces_validated_against_impl": res["transitions"] + gres["transitions"],
        "exhaustive": False,
        "distinct_nontrivial_transitions": res["nontrivial_transitions"] + gres["nontrivial_transitions"],
        "rule": "all histories to the stated depth over the alphabet; non-trivial = a step for which the reaction table expects at least one write; plus a depth-1 grid over time zones x instants x versions x metric, plus a depth-1 sweep of every type number 0-60 of presentation/set/req (known and unknown node), internal -1..40 and stream -1..8 in two base states per version, plus set + req of every value type 0-60 per version (and with the version becoming known in between), plus every internal type x 3 payloads from the gateway node and from a node followed by the four reaction triggers, plus three scenarios (E2, <= 1/3 early firings) in which the wait for the next message times out while a reaction is being written",
        "bounds": {"depth": depth, "per_cfg": res["per_cfg"], "grid_cfgs": len(grid)},
        "samples": ctx.pick(res["samples"], 3),
    }
    return core.Report(
        level="model_checking",
        coverage=cov,
        violations=viols,
        assumptions=[
            "time.localtime/time.time frozen to two instants; expected reply computed arithmetically from the POSIX TZ rule",
            "presentation requests (C10) filtered by form; the only application send is one set command, whose release at a wake (C07) is accepted",
            "reboot flag read from the public Node.reboot attribute before the step",
        ],
    )


def replay(data: dict) -> dict:
    try:
        if "choices" in data:
            from .. import explore

            return explore.replay(MOD, data)
        return bfs.replay_history(MOD, data)
    finally:
        unfreeze()
