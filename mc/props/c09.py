"""C09 — no set command is lost when send races with the wake-up flush. E2 schedule exploration."""

from __future__ import annotations

import asyncio

from aiomysensors.gateway import Gateway
from aiomysensors.model.message import Message

from .. import core, explore, refmodel as R
from ..harness import AsyncScriptTransport, drive

MOD = __name__
A, B, C, D, E = [1, 3, 2], [1, 3, 3], [1, 4, 2], [1, 4, 3], [2, 3, 2]
I, J = [1, 255, 13, 3], [1, 255, 6, 3]  # internal commands (4th element = command 3): parked for sleeping nodes too


def cmd_of(k) -> int:
    return k[3] if len(k) > 3 else 1


def msg_of(k, val, ack: int = 0) -> Message:
    return Message(k[0], k[1], cmd_of(k), ack, k[2], val)


def key_of(k) -> tuple:
    return (k[0], k[1], cmd_of(k), k[2])


class Scenario:
    horizon = 4000

    def __init__(self, cfg: dict, loop) -> None:
        self.cfg = cfg
        self.loop = loop
        v = self.version = cfg["version"]
        t = self.t = AsyncScriptTransport(loop)
        gw = self.gw = Gateway(t)
        gw.protocol_version = v
        self.wt = R.wake_type(v)
        # set-up (sequential): two sleeping nodes with children, parked commands for node 1
        agen = gw.listen()
        for n in (1, 2):
            for line in (f"{n};255;0;0;17;{v}", f"{n};3;0;0;3;", f"{n};4;0;0;3;", f"{n};255;3;0;{self.wt};0"):
                t.lines.append(line)
                drive(agen.__anext__())
        self.sent: dict[tuple, list[str]] = {}
        self.pad = "   " if cfg.get("pad") else ""  # values that end in blanks (a text padded to the width of a display)
        for i, k in enumerate(cfg["parked"]):
            val = f"p{i}" + self.pad
            self.sent.setdefault(key_of(k), []).append(val)
            drive(gw.send(msg_of(k, val)))
        # the node has itself reported, for key A, the very value sender 0 will send first (and for key B a parked one)
        for line in ("1;3;1;0;2;s00", "1;3;1;0;3;p1") + (("1;4;1;0;2;stored!",) if cfg.get("req") else ()):
            t.lines.append(line)
            drive(agen.__anext__())
        assert not t.log, t.log
        t.sync = False
        # what the listener receives: the wake, optionally followed by echoes of earlier commands (ack flag set)
        self.script = [f"1;255;3;0;{self.wt};0"] + [f"1;3;1;1;2;{e}" for e in cfg.get("echoes", [])]
        if cfg.get("represent"):
            # the sleeping node reboots: it presents itself (and its children) again, then announces it is awake
            self.script = [f"1;255;0;0;17;{v}", "1;3;0;0;3;", "1;4;0;0;3;"] + self.script
        if cfg.get("req"):
            # before it wakes, the (sleeping) node asks for the value of child 4 / type 2, for which a command is parked
            self.script = ["1;4;2;0;2;"] + self.script
        self.script_pos = 0
        self.fail_budget = cfg.get("faults", 0)
        self.cancel_budget = cfg.get("cancels", 0)
        self.timed_out = False
        self.step_task = None
        self.errors: list[str] = []
        self.nontrivial = False
        self.wake_delivered = False
        self.listener = loop.create_task(self._listen())
        self.sender_tasks: dict[int, object] = {}
        self.nsenders = len(cfg["senders"])

    async def _listen(self):
        from aiomysensors.exceptions import TransportError

        agen = self.gw.listen()
        try:
            for _ in self.script:
                # the application waits for the next message the way asyncio.wait_for does: the wait itself is a
                # task that a timeout cancels, after which the application goes on listening
                self.step_task = self.loop.create_task(agen.__anext__())
                try:
                    await self.step_task
                except TransportError:
                    # a flush write failed: reported to the caller of listen, who goes on listening
                    await agen.aclose()
                    agen = self.gw.listen()
                except asyncio.CancelledError:
                    if not self.timed_out:
                        raise  # the listener itself is being cancelled (end of the execution)
                    self.timed_out = False
                    await agen.aclose()
                    agen = self.gw.listen()
        finally:
            self.step_task = None
            await agen.aclose()

    async def _sender(self, i: int):
        for j, k in enumerate(self.cfg["senders"][i]):
            val = f"s{i}{j}" + self.pad
            self.sent.setdefault(key_of(k), []).append(val)  # send order = order in which send calls start
            if self.t.pending_writes:
                self.nontrivial = True  # a send runs while a flush write is in flight
            acks = self.cfg.get("sender_acks")
            await self.gw.send(msg_of(k, val, acks[i] if acks else 0))

    # -- environment ----------------------------------------------------------
    def enabled(self) -> list:
        evs = []
        # a write whose caller was cancelled is gone (its future is cancelled before the caller runs again)
        self.t.pending_writes[:] = [e for e in self.t.pending_writes if not e[0].done()]
        if self.script_pos < len(self.script) and self.t.pending_read is not None:
            nxt = self.script[self.script_pos]
            evs.append("wake" if nxt.split(";")[4] == str(self.wt) and nxt.split(";")[2] == "3" else ("req" if nxt.split(";")[2] == "2" else ("present" if nxt.split(";")[2] == "0" else "echo")))
        for i in range(len(self.t.pending_writes)):
            evs.append(f"write:{i}")
            if self.fail_budget > 0:
                evs.append(f"write:{i}:fail")
        for i in range(self.nsenders):
            if i not in self.sender_tasks:
                evs.append(f"spawn:{i}")
        if self.cancel_budget > 0 and self.t.pending_writes and self.step_task is not None and not self.step_task.done():
            evs.append("timeout")  # the application's wait for the next message times out while a release write is in flight
        return evs

    def fire(self, label: str) -> None:
        if label in ("wake", "echo", "req", "present"):
            self.wake_delivered = True
            self.t.deliver(self.script[self.script_pos])
            self.script_pos += 1
        elif label == "timeout":
            self.cancel_budget -= 1
            self.nontrivial = True
            self.timed_out = True
            self.step_task.cancel()
        elif label.endswith(":fail"):
            self.fail_budget -= 1
            self.nontrivial = True
            self.t.complete_write(int(label.split(":")[1]), ok=False)
        elif label.startswith("write:"):
            self.t.complete_write(int(label.split(":")[1]))
        elif label.startswith("spawn:"):
            i = int(label.split(":")[1])
            self.sender_tasks[i] = self.loop.create_task(self._sender(i))

    def finished(self) -> bool:
        return (
            self.script_pos >= len(self.script)
            and len(self.sender_tasks) == self.nsenders
            and self.listener.done()
            and all(t.done() for t in self.sender_tasks.values())
            and self.loop.ready_count() == 0
        )

    def verdict(self, hang: bool) -> list:
        viols = []

        def bad(k, what):
            viols.append((f"C09|{k}", f"[{self.version}] parked {self.cfg['parked']} senders {self.cfg['senders']}: {what}", None))

        if hang:
            bad("hang", "no enabled event while a task is unfinished")
            return viols
        for name, task in [("listener", self.listener)] + [(f"sender{i}", t) for i, t in sorted(self.sender_tasks.items())]:
            if task.cancelled():
                bad("task-cancelled", f"{name} was cancelled")
            elif task.exception() is not None:
                bad(f"task-raised:{type(task.exception()).__name__}", f"{name} raised {task.exception()!r}")
        # every node wakes once more, atomically and fault-free
        self.t.sync = True
        agen = self.gw.listen()
        for n in (1, 2):
            self.t.lines.append(f"{n};255;3;0;{self.wt};0")
            try:
                drive(agen.__anext__())
            except Exception as exc:  # noqa: BLE001
                bad("final-wake-raised", f"final wake of node {n} raised {exc!r}")
                agen = self.gw.listen()
        written: dict[tuple, list[str]] = {}
        # a write that failed never reached the node: only completed writes count, in the order they were issued
        for line in self.t.written():
            f = line.rstrip("\n").split(";", 5)
            if f[2] == "3" and f[4] == "19":
                continue  # presentation requests are not application commands
            written.setdefault((int(f[0]), int(f[1]), int(f[2]), int(f[4])), []).append(f[5])
        if self.cfg.get("req"):
            # the answer to the value request carries the stored value (C06): not a command
            w = written.get((1, 4, 1, 2), [])
            if "stored!" in w:
                w.remove("stored!")
                if not w:
                    written.pop((1, 4, 1, 2), None)
        self.written = written
        for key, vals in self.sent.items():
            w = written.get(key, [])
            if not w or w[-1] != vals[-1]:
                bad("lost-update", f"key {key}: values sent in order {vals}, values written in order {w}: the last value sent is not the last value written")
        for key, w in written.items():
            s = self.sent.get(key, [])
            for val in w:
                if val not in s:
                    bad("phantom-write", f"key {key}: value {val!r} written but never sent")
            for val in set(w):
                if w.count(val) > s.count(val):
                    bad("written-more-often-than-sent", f"key {key}: value {val!r} written {w.count(val)} times, sent {s.count(val)} times")
        return viols

    def observation(self):
        return {"log": list(self.t.log), "sent": {str(k): v for k, v in sorted(self.sent.items())}}


def make_scenario(cfg, loop):
    return Scenario(cfg, loop)


def configs(ctx: core.Ctx) -> list:
    base = [
        {"parked": [A], "senders": [[A]]},
        {"parked": [A, B], "senders": [[A], [B]]},
        {"parked": [A, B], "senders": [[B, A]]},
        {"parked": [A], "senders": [[C]]},
        {"parked": [A], "senders": [[E]]},
        {"parked": [], "senders": [[A], [A]]},
        {"parked": [A, B, C, D], "senders": [[A], [D]]},
        {"parked": [A, B], "senders": [[A], [A], [B]]},
        {"parked": [A, B, C], "senders": [[A, B], [C, E]]},
        {"parked": [I, A], "senders": [[I], [A]]},
        {"parked": [A, I, J], "senders": [[J, I]]},
        # one value replaced again and again, each time while the previous one is being written
        {"parked": [A], "senders": [[A], [A], [A]]},
        {"parked": [A], "senders": [[A], [A], [A], [A]]},
        # the application asks for an acknowledgement with some of its commands (ack flag set)
        {"parked": [A], "senders": [[A], [A]], "sender_acks": [1, 0]},
        {"parked": [A, B], "senders": [[A, B], [A]], "sender_acks": [1, 0]},
        {"parked": [], "senders": [[A], [A], [A]], "sender_acks": [0, 1, 0]},
        # the sleeping node reboots and presents itself again before it announces that it is awake
        {"parked": [A, B], "senders": [[B]], "represent": True},
        {"parked": [A, C], "senders": [[C], [A]], "represent": True},
        # values that end in blanks
        {"parked": [A], "senders": [[A]], "pad": True},
        # the sleeping node asks for a value a command is parked for, then wakes
        {"parked": [C], "senders": [[C]], "req": True},
        {"parked": [A, C], "senders": [[C], [A]], "req": True},
        # the application's wait for the next message is cancelled (a timeout) while a release write is in flight
        {"parked": [A, B], "senders": [[C]], "cancels": 1},
        {"parked": [A, I], "senders": [[A]], "cancels": 1},
        # an echo (ack flag set) of an earlier command for key A arrives after the wake
        {"parked": [A], "senders": [[A]], "echoes": ["p0"]},
        {"parked": [A, B], "senders": [[A], [B]], "echoes": ["s00", "p0"]},
        # one flush write may fail (C08 under races): nothing is lost, the newest value wins
        {"parked": [A], "senders": [[A]], "faults": 1},
        {"parked": [A, B], "senders": [[B], [A]], "faults": 1},
    ]
    if ctx.quick:
        versions = ["2.1", "2.2"]
    else:
        versions = ["2.0", "2.1", "2.2"]
        base += [
            {"parked": [A, B, C, D], "senders": [[A, B], [C, D], [A]]},
            {"parked": [A, B, E], "senders": [[E, A], [B], [A, E]]},
        ]
    return [dict(c, version=v) for v in versions for c in base]


def run(ctx: core.Ctx) -> core.Report:
    K = 2 if ctx.quick else 99
    res = explore.explore(ctx, MOD, configs(ctx), K)
    cov = {
        "evaluations": res["executions"],
        "distinct_nontrivial": res["nontrivial"],
        "distinct_outcomes": res["distinct_outcomes"],
        "rule": "every execution is a distinct choice sequence (schedule) of the listener flushing a woken node's buffer and 1-3 application tasks calling send, transport writes suspended until the explorer completes them (ok, or failing, or abandoned because the application's wait for the next message timed out); all orders of environment events at quiescent points + at most K early firings; non-trivial = at least one send call started while a flush write was in flight",
        "exhaustive": True,
        "bounds": {"K_deviations": K if K < 99 else "unbounded: every schedule of the scenario", "configs": len(configs(ctx)), "max_choice_points": res["max_points"]},
        "samples": [res["sample"]],
    }
    return core.Report(
        level="exploration",
        coverage=cov,
        violations=res["violations"],
        assumptions=[
            "write log ordered by invocation of Transport.write (the order bytes reach a StreamWriter)",
            "send order = order in which the send calls start",
            "asyncio's FIFO ready-queue order is kept; environment events only complete futures",
        ],
    )


def replay(data: dict) -> dict:
    return explore.replay(MOD, data)
