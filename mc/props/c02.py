"""C02 — decoder accepts exactly the well-formed lines and decodes them literally. E3, exhaustive."""

from __future__ import annotations

import itertools

from marshmallow import ValidationError

from aiomysensors.exceptions import InvalidMessageError
from aiomysensors.model.message import MessageSchema
from aiomysensors.model.protocol import get_protocol

from .. import core, refmodel as R
from ..harness import Session

BIG = "12345678901234567890"
FULL = {
    "node": ["0", "1", "255", "256", "-1", "", "x", " 1", "01", "1e2", "²"],
    "child": ["0", "1", "254", "255", "256", "-1", "", "x", "0255", "+255", " 255"],
    "command": ["0", "1", "2", "3", "4", "5", "-1", "", "x", "01", "+3", "²"],
    "ack": ["0", "1", "2", "-1", "", "x", "01"],
    "type": ["0", "3", "4", "5", "-1", "", "x", BIG, "²", "03"],
    "payload": ["", "p"],
    "tails": [[], [""], ["q"], ["q", "r"]],
    "endings": ["\n"],
}
QUICK = {
    "node": ["0", "255", "256", "x", " 1"],
    "child": ["0", "255", "256", "x", "0255", "+255"],
    "command": ["1", "3", "4", "5", "x", "+3", "²"],
    "ack": ["0", "1", "2", ""],
    "type": ["0", "3", "-1", "x", BIG, "²"],
    "payload": ["", "p"],
    "tails": [[], ["q"]],
    "endings": ["\n", " \r\n"],
}


def classify(tok: str):
    """("plain", v) | ("maybe", v) | ("not", None)."""
    if R.PLAIN_INT.match(tok):
        return ("plain", int(tok))
    try:
        return ("maybe", int(tok))
    except ValueError:
        return ("not", None)


def verdict(line: str):
    """Reference three-valued acceptor. Returns (cls, values) with cls in must_accept/must_reject/either."""
    fields = line.rstrip().split(";")
    if len(fields) < 6:
        return ("must_reject", None)
    cl = [classify(t) for t in fields[:5]]
    if any(c[0] == "not" for c in cl):
        return ("must_reject", None)
    vals = tuple(c[1] for c in cl)
    payload = ";".join(fields[5:])
    ok = R.cross_field_ok(*vals)
    if all(c[0] == "plain" for c in cl):
        return ("must_accept", vals + (payload,)) if ok else ("must_reject", None)
    # some field is an unusual-but-int()-parsable spelling: either, but if accepted it must be ok
    return ("either", vals + (payload,)) if ok else ("must_reject", None)


_SCHEMAS: dict = {}
_SESSIONS: dict = {}


def schema(version: str) -> MessageSchema:
    """A fresh decoder per line: a line's verdict must not depend on lines decoded before it
    (histories of lines are a separate pass, check_history)."""
    s = MessageSchema()
    s.set_protocol(get_protocol(version))
    return s


def check_line(version: str, line: str, gateway_level: bool = True) -> list:
    """Run one line through the real decoder (and the gateway, for rejects). Returns violation tuples."""
    cls, vals = verdict(line)
    nf = len(line.rstrip().split(";")) if line.rstrip() else 0
    viols = []

    def bad(k, what):
        viols.append((f"C02|{k}|fields={min(nf, 7)}", f"[{version}] line {line!r} ({cls}): {what}", {"version": version, "line": line}))

    try:
        m = schema(version).load(line)
        got = (m.node_id, m.child_id, m.command, m.ack, m.message_type, m.payload)
        accepted = True
    except (ValidationError, InvalidMessageError):
        accepted = False
    except Exception as exc:  # noqa: BLE001
        accepted = None
        bad(f"foreign-exception:{type(exc).__name__}", f"decoder raised {type(exc).__name__}: {exc}")
    if accepted is True:
        if cls == "must_reject":
            bad("ill-formed-accepted", f"decoded to {got}")
        elif got != vals or any(type(a) is not type(b) for a, b in zip(got, vals)):
            bad("decoded-values-differ", f"decoded to {got}, the line spells {vals}")
    elif accepted is False and cls == "must_accept":
        bad("well-formed-rejected", "rejected as invalid")
    if gateway_level and cls == "must_reject":
        s = Session(version, reset_modules=False)
        out = s.line(line)
        # ... also while the gateway's version is still unknown and the transport cannot be written to
        s2 = Session(None, reset_modules=False)
        s2.transport.fail_writes = 5
        out2 = s2.line(line)
        if not (out2.kind == "raise" and isinstance(out2.exc, InvalidMessageError)):
            bad(f"listen-unknown-version-write-fault:{type(out2.exc).__name__ if out2.kind == 'raise' else out2.kind}", f"with the version unknown and a failing transport, listen() gave {out2.describe()}")
        if not (out.kind == "raise" and isinstance(out.exc, InvalidMessageError)):
            if out.kind == "raise":
                bad(f"listen-foreign-exception:{type(out.exc).__name__}", f"listen() raised {type(out.exc).__name__}: {out.exc}")
            else:
                bad("listen-accepted-ill-formed", f"listen() gave {out.describe()}")
        elif out.writes:
            pass  # version is known; no write expected, but that is C06's statement
    return viols


HISTORY_LINES = [
    "0;255;3;0;9;a", "0;7;3;0;9;a", "1;3;1;0;2;v", "1;255;1;0;2;v", "1;7;3;0;3;", "1;7;4;0;3;", "1;255;4;0;0;x",
    "1;3;2;0;0;", "1;255;2;0;0;", "256;3;1;0;2;v", "1;3;1;2;2;v", "1;3;5;0;2;v", "1;3;1;0;2", "1;3;0;0;6;d", "1;255;0;0;17;2.0", "x;3;1;0;2;v",
]


LONG = "z" * 70000
ODD_LINES = [
    # ill-formed lines made of characters a transport may well hand over: lone surrogates (what errors="surrogateescape"
    # makes of undecodable bytes), NUL, a byte order mark, a burst of noise as long as the stream limit
    "\udc80", "\ud800\udc80;", "1;2;\udcff", "x\udc80;3;1;0;2;v", "1;3;1;0;2\udc80", "256;3;1;0;2;\udc80v", "1;3;9;0;2;\udcfe", "1;3;1;0;\udc80;v",
    "\x00", "1;3;1;0;2\x00", "\ufeff1;3;1;0;2;v", LONG, "1;3;9;0;2;" + LONG, LONG + ";3;1;0;2;v",
    # characters that mean something to str.format / % / regex / csv machinery, in ill-formed lines
    '7;300;1;0;2;{"temp": 21}', "7;256;1;0;2;{}", "7;-1;1;0;2;level}", "{};3;1;0;2;v", "1;{0};1;0;2;v", "1;3;{x};0;2;v", "1;3;1;0;{;v", "1;3;9;0;2;%s", "%s;3;1;0;2;v", "1;%(x)s;1;0;2;v",
    '1;300;1;0;2;"q', "1;3;7;0;2;a|b\\", "1;3;1;5;2;(x", "256;3;1;0;2;[a-",
    # a payload that itself contains line feeds / carriage returns (an MQTT payload may): still six fields
    "1;3;1;0;2;first row\nsecond row", "0;255;3;0;9;a\rb\nc", "1;3;1;0;2;\n\nx",
    # well-formed lines whose payload carries the same characters: accepted, decoded literally
    '1;3;1;0;2;{"temp": 21}', "1;3;1;0;2;%s%(x)s{}", '1;3;1;0;2;"on"', '1;3;1;0;2;a;"b";c',
    "1;3;1;0;2;\udc80", "1;3;1;0;2;a\udcffb;c", "1;3;1;0;2;\x00", "1;3;1;0;2;" + LONG, "1;255;3;0;9;\ufeff",
]


def check_history(version: str, seq: list) -> list:
    """The verdict on a line must not depend on the lines decoded before it: one decoder and one gateway
    are fed a whole sequence; every line's accept/reject outcome must equal the reference verdict."""
    viols = []
    sch = MessageSchema()
    sch.set_protocol(get_protocol(version))
    gw = Session(version)
    for i, line in enumerate(seq):
        cls, vals = verdict(line)

        def bad(k, what):
            viols.append((f"C02|history-{k}", f"[{version}] line #{i} {line!r} ({cls}) after {seq[:i]}: {what}", {"version": version, "seq": seq}))

        try:
            m = sch.load(line)
            got = (m.node_id, m.child_id, m.command, m.ack, m.message_type, m.payload)
            if cls == "must_reject":
                bad("ill-formed-accepted", f"decoded to {got}")
            elif got != vals:
                bad("decoded-values-differ", f"decoded to {got}, the line spells {vals}")
        except (ValidationError, InvalidMessageError):
            if cls == "must_accept":
                bad("well-formed-rejected", "rejected as invalid")
        except Exception as exc:  # noqa: BLE001
            bad(f"foreign-exception:{type(exc).__name__}", f"decoder raised {exc!r}")
        out = gw.line(line)
        rejected = out.kind == "raise" and isinstance(out.exc, InvalidMessageError)
        if cls == "must_reject" and not rejected:
            bad("listen-accepted-ill-formed", f"listen() gave {out.describe()}")
        if cls == "must_accept" and rejected:
            bad("listen-rejected-well-formed", f"listen() gave {out.describe()}")
    return viols


def check_states(version: str) -> list:
    """An accepted line decodes to exactly what it spells in every gateway state, also when commands are parked
    for a sleeping node and the line is that node's wake."""
    from aiomysensors.model.message import Message as Msg

    viols = []
    wt = R.wake_type(version)
    setups = [[], ["1;255;0;0;17;2.0", "1;3;0;0;3;d"]]
    if wt is not None:
        setups.append(["1;255;0;0;17;2.0", "1;3;0;0;3;d", f"1;255;3;0;{wt};0", ("send", (1, 3, 1, 0, 2, "on")), ("send", (1, 255, 3, 0, 13, "x"))])
    lines = ["1;255;3;0;22;7", "1;255;3;0;32;500", "1;3;1;0;2;v", "1;3;2;0;2;", "1;255;3;0;0;50", "1;255;0;0;17;2.0", "1;3;0;0;3;d", "255;255;3;0;3;", "1;255;3;0;6;", "0;255;3;0;9;log"]
    for setup in setups:
        for line in lines:
            s = Session(version, reset_modules=False)
            for st in setup:
                if isinstance(st, tuple):
                    s.send(Msg(*st[1]))
                else:
                    s.line(st)
            out = s.line(line)
            if out.kind == "yield":
                f = line.split(";", 5)
                want = (int(f[0]), int(f[1]), int(f[2]), int(f[3]), int(f[4]), f[5])
                if out.fields != want:
                    viols.append(("C02|state-decoded-values-differ", f"[{version}] in gateway state {setup} the line {line!r} was yielded as {out.fields}", {"version": version, "state_check": True}))
                # the application turns the message it got into its reply (edits it in place); the node repeats its line
                m = out.value
                try:
                    m.ack, m.payload, m.child_id = 1, "edited", 200
                except Exception:  # noqa: BLE001
                    pass
                out2 = s.line(line)
                if out2.kind == "yield" and out2.fields != want:
                    viols.append(("C02|repeated-line-decoded-values-differ", f"[{version}] in gateway state {setup} the line {line!r} was yielded, the application edited that message object, the same line arrived again and was yielded as {out2.fields}", {"version": version, "state_check": True}))
    return viols


def job_history(j):
    version, firsts = j
    viols = []
    n = 0
    for a in firsts:
        for b in HISTORY_LINES:
            for c in HISTORY_LINES:
                n += 1
                viols += check_history(version, [a, b, c])
    return n, {"must_accept": 0, "must_reject": 0, "either": 0}, viols, f"{a} | {b} | {c}"


def job_odd(version):
    viols = []
    for line in ODD_LINES:
        for k, w, rep in check_line(version, line):
            viols.append((k, w[:600], {"version": version, "odd": ODD_LINES.index(line)}))
    return len(ODD_LINES), {"must_accept": 0, "must_reject": 0, "either": 0}, viols, "odd"


def lines_for(alpha: dict, node: str, child: str):
    for cmd, ack, typ in itertools.product(alpha["command"], alpha["ack"], alpha["type"]):
        head = [node, child, cmd, ack, typ]
        for pl in alpha["payload"]:
            for tail in alpha["tails"]:
                yield ";".join(head + [pl] + tail)


def job_six(job):
    version, tier, node, child = job
    alpha = QUICK if tier == "quick" else FULL
    n = 0
    classes = {"must_accept": 0, "must_reject": 0, "either": 0}
    viols = []
    sample = None
    for base in lines_for(alpha, node, child):
        for end in alpha["endings"]:
            line = base + end
            n += 1
            classes[verdict(line)[0]] += 1
            viols += check_line(version, line)
            sample = line
    return n, classes, viols, sample


def job_prefix(job):
    version, tier, k = job
    alpha = QUICK if tier == "quick" else FULL
    pos = [alpha["node"], alpha["child"], alpha["command"], alpha["ack"], alpha["type"]][:k]
    n = 0
    viols = []
    for toks in itertools.product(*pos):
        for end in alpha["endings"]:
            line = ";".join(toks) + end
            n += 1
            viols += check_line(version, line)
    return n, {"must_reject": n, "must_accept": 0, "either": 0}, viols, ";".join(toks) if pos else ""


def run(ctx: core.Ctx) -> core.Report:
    alpha = QUICK if ctx.quick else FULL
    jobs6 = [(v, ctx.tier, n, c) for v in R.VERSIONS for n in alpha["node"] for c in alpha["child"]]
    jobsp = [(v, ctx.tier, k) for v in R.VERSIONS for k in range(0, 6)]
    r6 = core.pmap(job_six, jobs6, ctx.workers, chunksize=1)
    rp = core.pmap(job_prefix, jobsp, ctx.workers, chunksize=1)
    jobsh = [(v, HISTORY_LINES[i : i + 4]) for v in R.VERSIONS for i in range(0, len(HISTORY_LINES), 4)]
    rp += core.pmap(job_history, jobsh, ctx.workers, chunksize=1)
    rp += core.pmap(job_odd, list(R.VERSIONS), ctx.workers, chunksize=1)
    sres = core.pmap(check_states, list(R.VERSIONS), ctx.workers, chunksize=1)
    total = 0
    classes = {"must_accept": 0, "must_reject": 0, "either": 0}
    viols = []
    samples = []
    state_viols = [core.Violation(k, w, rep) for r in sres for k, w, rep in r]
    for n, cl, vs, sample in r6 + rp:
        total += n
        for k in cl:
            classes[k] += cl[k]
        viols += [core.Violation(k, w, rep) for k, w, rep in vs]
        samples.append(sample)
    cov = {
        "evaluations": total,
        "distinct_nontrivial": classes["must_accept"] + classes["either"] + classes["must_reject"],
        "classes": classes,
        "rule": "full product of per-position token alphabets (6-8 fields) x payload/extra-field variants x endings, plus every 0-5 field prefix, x five versions; every generated line is distinct; each is decoded by a fresh real MessageSchema and, when it must be rejected, also fed to a fresh real Gateway.listen step; plus 20 lines made of lone surrogates, NUL, BOM and 70000-character bursts (ill-formed, and well-formed with such payloads); plus every sequence of 3 lines over a 16-line alphabet through one decoder and one gateway (a verdict must not depend on earlier lines)",
        "exhaustive": True,
        "bounds": {k: v for k, v in alpha.items()},
        "samples": ctx.pick([s for s in samples if s is not None], 6),
    }
    return core.Report(
        level="exploration",
        coverage=cov,
        violations=viols + state_viols,
        assumptions=[
            "three-valued oracle: unusual int()-parsable spellings (' 1', '01') may be accepted or rejected, but if accepted must decode to int(field) and obey all rules",
            "strings outside the token alphabets are not covered",
        ],
    )


def replay(data: dict) -> dict:
    if data.get("state_check"):
        v = check_states(data["version"])
        return {"violated": bool(v), "violations": [{"key": k, "what": w} for k, w, _ in v]}
    if "odd" in data:
        v = check_line(data["version"], ODD_LINES[data["odd"]])
        return {"violated": bool(v), "violations": [{"key": k, "what": w[:600]} for k, w, _ in v]}
    if "seq" in data:
        v = check_history(data["version"], data["seq"])
        return {"violated": bool(v), "violations": [{"key": k, "what": w} for k, w, _ in v]}
    v = check_line(data["version"], data["line"])
    return {"violated": bool(v), "violations": [{"key": k, "what": w} for k, w, _ in v]}
