"""C08 — sleep buffer loses nothing and repeats nothing when transport writes fail. Fault enumeration (E2, sequential)."""

from __future__ import annotations

import itertools

from aiomysensors.exceptions import AIOMySensorsError
from aiomysensors.model.message import Message

from .. import core, refmodel as R
from ..harness import Session
from collections import deque

KEYS = [(1, 3, 1, 2), (1, 3, 1, 3), (1, 4, 1, 2), (2, 3, 1, 2), (1, 255, 3, 13)]  # (node, child, command, type)
# an internal command that may carry any child id (id response) and a set command with the same node, child and type number
TWINS = [(1, 3, 3, 4), (1, 3, 1, 4)]


def run_plan(version: str, cmds: list, wakes: list, plan: list, fault: str = "failed"):
    """One execution: park cmds, deliver wakes with the fail plan, then one fault-free wake per node.
    Returns (attempts_seen_in_faulty_phase, violations, trace)."""
    viols = []
    s = Session(version)
    wt = R.wake_type(version)
    for n in (1, 2):
        s.line(f"{n};255;0;0;17;{version}")
        for c in (3, 4):
            s.line(f"{n};{c};0;0;3;")
        s.line(f"{n};255;3;0;{wt};0")
    lines = {}
    for k in cmds:
        k = tuple(k)
        lines[R.enc(k[0], k[1], k[2], 0, k[3], f"v{k[0]}{k[1]}{k[3]}")] = k
        out = s.send(Message(k[0], k[1], k[2], 0, k[3], f"v{k[0]}{k[1]}{k[3]}"))
        assert out.kind == "return" and not out.attempts
    ok_count = {l: 0 for l in lines}
    failed_pending = set()
    trace = []

    def bad(k, what):
        viols.append((f"C08|{k}", f"[{version}] parked {cmds}, wakes {wakes}, fail plan {plan} (write raises {FAULT_CLASSES[fault].__name__}): {what}", None))

    from ..harness import FAULT_CLASSES

    s.transport.fault_class = FAULT_CLASSES[fault]
    s.transport.fail_plan = deque(plan)
    nattempts = 0
    for phase, wl in (("faulty", wakes), ("final", [1, 2])):
        if phase == "final":
            s.transport.fail_plan = None
        for n in wl:
            if isinstance(n, list) and n[0] == "version":
                # not a wake: the gateway reports another release; from now on that protocol's wake message counts
                out = s.line(f"0;255;3;0;2;{n[1]}")
                wt = R.wake_type(R.spec_protocol(n[1]))
                trace.append({"version_report": n[1], "phase": phase, "attempts": out.attempts, "outcome": out.describe()})
                if out.kind != "yield" or out.attempts:
                    bad("version-report-step", f"the version report {n[1]!r} gave {out.describe()}")
                continue
            if isinstance(n, list):
                # not a wake: the (sleeping) node requests the value of child/type of a parked set command
                rk = n[1]
                out = s.line(f"{rk[0]};{rk[1]};2;0;{rk[3]};")
                is_req, n = True, rk[0]
            else:
                out = s.line(f"{n};255;3;0;{wt};0")
                is_req = False
            trace.append({"wake": n, "req": is_req, "phase": phase, "attempts": out.attempts, "outcome": out.describe()})
            if phase == "faulty":
                nattempts += len(out.attempts)
            any_fail = any(not ok for _, ok in out.attempts)
            if any_fail:
                if not (out.kind == "raise" and isinstance(out.exc, AIOMySensorsError)):
                    bad("failure-not-reported", f"a flush write failed at wake of node {n} but listen gave {out.describe()}")
            elif out.kind != "yield":
                bad("wake-raised-without-fault", f"wake of node {n} gave {out.describe()}")
            for l, ok in out.attempts:
                if l not in lines:
                    bad("foreign-write", f"wake of node {n} wrote {l!r}")
                    continue
                if lines[l][0] != n:
                    bad("other-nodes-command", f"wake of node {n} wrote {l!r} which belongs to node {lines[l][0]}")
                if ok_count[l] >= 1:
                    bad("written-again", f"{l!r} was already written successfully and is written again at wake of node {n}")
                if ok:
                    ok_count[l] += 1
                    failed_pending.discard(l)
                else:
                    failed_pending.add(l)
    for l, c in ok_count.items():
        if c == 0:
            bad("command-lost", f"{l!r} was never written successfully, although its node woke again fault-free")
    return nattempts, viols, trace


def explore_case(job):
    version, cmds, wakes = job[:3]
    fault = job[3] if len(job) > 3 else "failed"
    viols = []
    n_exec = 0
    n_faulty = 0
    stack = [[]]
    while stack:
        plan = stack.pop()
        nattempts, v, _ = run_plan(version, cmds, wakes, plan, fault)
        n_exec += 1
        if any(plan):
            n_faulty += 1
        for k, w, _x in v:
            viols.append((k, w, {"version": version, "cmds": cmds, "wakes": wakes, "plan": plan, "fault": fault}))
        # branch: flip each later attempt to a failure (attempts beyond the plan default to ok)
        for i in range(len(plan), nattempts):
            stack.append(plan + [False] * (i - len(plan)) + [True])
    return n_exec, n_faulty, viols


def mqtt_case(job) -> list:
    """The same statement over the library's own MQTT transport: a publish of a released command fails with one of the
    broker client's error classes (at QoS 0 and QoS 1 = ack flag set): reported, kept, written at a later wake, once."""
    from unittest.mock import patch

    from aiomqtt import MqttCodeError, MqttError
    from aiomysensors.gateway import Gateway
    from aiomysensors.transport.mqtt import MQTTClient

    from ..mqttfake import FakeClient
    from ..vloop import VLoop

    version, errname, fail_index = job
    err = {"MqttError": MqttError("Operation timed out"), "MqttCodeError": MqttCodeError(4, "Could not publish message")}[errname]
    viols = []

    def bad(k, what):
        viols.append((f"C08|mqtt-{k}", f"[{version}] MQTT transport, publish #{fail_index} of the release fails with {errname}: {what}", {"mqtt": list(job)}))

    loop = VLoop()
    loop.enter()
    p = patch("aiomysensors.transport.mqtt.AsyncioClient", FakeClient)
    p.start()
    try:
        FakeClient.instances.clear()
        FakeClient.plan = {}
        FakeClient.suspend = set()
        t = MQTTClient("b", 1883, in_prefix="i", out_prefix="o")

        def run(coro):
            task = loop.create_task(coro)
            loop.run_ready()
            if not task.done():
                task.cancel()
                loop.run_ready()
                return ("hang", None)
            if task.cancelled():
                return ("cancelled", None)
            return ("raise", task.exception()) if task.exception() is not None else ("ok", task.result())

        run(t.connect())
        fake = FakeClient.instances[-1]
        gw = Gateway(t)
        gw.protocol_version = version
        wt = R.wake_type(version)
        agen = [gw.listen()]

        def step(line):
            f = line.split(";", 5)
            fake.deliver("i/" + "/".join(f[:5]), f[5].encode())
            loop.run_ready()
            k, v = run(agen[0].__anext__())
            if k != "ok":
                agen[0] = gw.listen()
            return k, v

        for line in ("1;255;0;0;17;2.0", "1;3;0;0;3;", f"1;255;3;0;{wt};0"):
            step(line)
        cmds = [Message(1, 3, 1, 1, 2, "acked"), Message(1, 3, 1, 0, 3, "plain"), Message(1, 255, 3, 1, 13, "")]
        for m in cmds:
            run(gw.send(m))
        if fake.published:
            bad("written-early", f"published before the wake: {fake.published}")
        # publishes of the first wake: the fail_index-th one fails
        count = {"n": 0}
        real_publish = fake.publish

        async def publish(topic, payload=None, qos=0, retain=False, **kw):
            i = count["n"]
            count["n"] += 1
            if i == fail_index:
                raise err
            return await real_publish(topic, payload=payload, qos=qos, retain=retain, **kw)

        fake.publish = publish
        k, v = step(f"1;255;3;0;{wt};0")
        failed = count["n"] > fail_index
        if failed and not (k == "raise" and isinstance(v, AIOMySensorsError)):
            bad("failure-not-reported", f"the wake gave {k} {v!r}")
        fake.publish = real_publish
        step(f"1;255;3;0;{wt};0")
        step(f"1;255;3;0;{wt};0")
        topics = [x[0] for x in fake.published]
        for m in cmds:
            topic = f"o/{m.node_id}/{m.child_id}/{m.command}/{m.ack}/{m.message_type}"
            if topics.count(topic) != 1:
                bad("lost" if topic not in topics else "written-again", f"command {topic} ({m.payload!r}) was published {topics.count(topic)} times over three wakes: {topics}")
    finally:
        p.stop()
        loop.shutdown()
    return viols


def race_pass(ctx: core.Ctx):
    """Write faults while the application sends concurrently: reuses the schedule explorer and scenario of C09
    with one failing flush write (every schedule with <= 2 early firings)."""
    from .. import explore
    from . import c09

    cfgs = [
        {"version": "2.2", "parked": [c09.A], "senders": [[c09.A]], "faults": 1},
        {"version": "2.1", "parked": [c09.A, c09.B], "senders": [[c09.B], [c09.A]], "faults": 1},
        {"version": "2.0", "parked": [c09.I, c09.A], "senders": [[c09.A]], "faults": 1},
        # the wait for the next message times out during the release (the write in flight is abandoned or, if the
        # code under test shields it, still completes): afterwards nothing is lost and nothing is written twice
        {"version": "2.2", "parked": [c09.A, c09.B], "senders": [], "cancels": 1},
        {"version": "2.1", "parked": [c09.A, c09.B, c09.C], "senders": [], "cancels": 1, "faults": 1},
    ]
    res = explore.explore(ctx, c09.MOD, cfgs, 2)
    viols = [core.Violation("C08|race|" + v.key.split("|", 1)[1], "write fault while the application sends: " + v.what, dict(v.replay, race=True)) for v in res["violations"]]
    return res["executions"], viols


def run(ctx: core.Ctx) -> core.Report:
    versions = ["2.1", "2.2"] if ctx.quick else ["2.0", "2.1", "2.2"]
    subsets = [list(c) for r in range(1, 5) for c in itertools.combinations(KEYS, r)]
    wake_seqs = [list(w) for r in range(1, 4) for w in itertools.product((1, 2), repeat=r)]
    req_seqs = [[["req", [1, 3, 1, 2]]], [["req", [1, 3, 1, 2]], 1], [1, ["req", [1, 3, 1, 2]]], [["req", [1, 3, 1, 3]], ["req", [1, 3, 1, 2]], 1], [["req", [2, 3, 1, 2]], 2]]
    jobs = [(v, [list(k) for k in sub], w, "failed") for v in versions for sub in subsets for w in wake_seqs]
    jobs += [(v, [list(k) for k in sub], w, "failed") for v in versions for sub in subsets if len(sub) <= 3 for w in req_seqs]
    # the gateway reports another 2.x release between a failed release and the retry
    for v in versions:
        for nv in ("2.0.0", "2.1.1", "2.2.0"):
            if R.spec_protocol(nv) == v:
                continue
            for w in ([["version", nv]], [1, ["version", nv]], [1, ["version", nv], 1], [["version", nv], 1, 2], [1, ["version", nv], ["version", v], 1]):
                jobs += [(v, [list(k) for k in sub], w, "failed") for sub in subsets if len(sub) <= 2 or (len(sub) == 3 and KEYS[4] in sub)]
    # the Transport contract is TransportError: also a plain TransportError, a transport's own subclass, an error without arguments
    jobs += [(versions[-1], [list(k) for k in sub], w, f) for f in ("plain", "custom", "bare") for sub in subsets if len(sub) <= 3 for w in wake_seqs if len(w) <= 2]
    # two commands that differ only in their command field
    for v in versions:
        for sub in ([TWINS[0], TWINS[1]], [TWINS[1], TWINS[0]], [TWINS[0], TWINS[1], KEYS[0]], [KEYS[4], TWINS[1], TWINS[0]]):
            jobs += [(v, [list(k) for k in sub], w, "failed") for w in wake_seqs if len(w) <= 2]
    res = core.pmap(explore_case, jobs, ctx.workers)
    n_exec = sum(r[0] for r in res)
    n_faulty = sum(r[1] for r in res)
    viols = [core.Violation(k, w, rep) for r in res for k, w, rep in r[2]]
    nrace, rv = race_pass(ctx)
    viols += rv
    mjobs = [(v, e, i) for v in versions for e in ("MqttError", "MqttCodeError") for i in (0, 1, 2)]
    for r in core.pmap(mqtt_case, mjobs, ctx.workers, chunksize=1):
        viols += [core.Violation(k, w, rep) for k, w, rep in r]
    n_exec += nrace
    cov = {
        "evaluations": n_exec,
        "distinct_nontrivial": n_faulty,
        "rule": "for every non-empty subset (size <= 4) of 5 commands (4 set commands over 2 nodes + 1 internal command) x every sequence of 1-3 wakes x every ok/fail assignment to the transport write attempts those wakes make (a tree: later attempts depend on earlier outcomes), (and 5 sequences in which the sleeping node requests the value of a parked command before or after its wake, and 5 sequences in which the gateway reports another 2.x release between the wakes), followed by one fault-free wake of each node; plus the library's MQTT transport with a publish (QoS 0 / 1) failing with either broker-client error class at each position of a release; plus 3 send-during-flush scenarios with one failing write (every schedule with <= 2 early firings); each execution is distinct; non-trivial = at least one write fails",
        "exhaustive": True,
        "bounds": {"versions": versions, "subsets": len(subsets), "wake_sequences": len(wake_seqs)},
        "samples": [{"version": jobs[i][0], "cmds": jobs[i][1], "wakes": jobs[i][2]} for i in (ctx.seed % len(jobs), len(jobs) - 1)],
    }
    return core.Report(level="fault_enumeration", coverage=cov, violations=viols, assumptions=["fault = Transport.write raises TransportFailedError, a plain TransportError or a transport's own TransportError subclass; sequential semantics (races are C09)"])


def replay(data: dict) -> dict:
    if "mqtt" in data:
        v = mqtt_case(tuple(data["mqtt"]))
        return {"violated": bool(v), "violations": [{"key": k, "what": w} for k, w, _ in v]}
    if data.get("race"):
        from .. import explore
        from . import c09

        return explore.replay(c09.MOD, data)
    _, v, trace = run_plan(data["version"], data["cmds"], data["wakes"], data["plan"], data.get("fault", "failed"))
    return {"violated": bool(v), "violations": [{"key": k, "what": w} for k, w, _ in v], "trace": trace}
