"""C07 — sleep buffer, sequential semantics. E1, closed state space."""

from __future__ import annotations

from collections import Counter

from aiomysensors.model.message import Message

from .. import bfs, core, refmodel as R
from ..harness import Session, canon_gateway

MOD = __name__
NODES = (1, 2)
CHILDREN = (3, 4)


def wake_line(version: str, n: int) -> str | None:
    t = R.wake_type(version)
    return None if t is None else R.enc(n, 255, 3, 0, t, "0").rstrip("\n")


class Monitor:
    def __init__(self, cfg: dict) -> None:
        self.cfg = cfg
        v = self.version = cfg["version"]
        s = self.s = Session(v)
        self.nodes = tuple(cfg.get("nodes", NODES))
        self.children = tuple(cfg.get("children", CHILDREN))
        self.keys = [tuple(k) for k in cfg["keys"]]
        self.values = cfg["values"]
        self.node_type = cfg.get("node_type", 17)
        # the library version a node reports for itself is independent of the gateway's version
        self.node_version = cfg.get("node_version", v)
        for n in self.nodes:
            s.line(f"{n};255;0;0;{self.node_type};{self.node_version}")
            for c in self.children:
                s.line(f"{n};{c};0;0;3;")
        self.sleeping = {n: False for n in self.nodes}
        for n, sl in zip(self.nodes, cfg["sleep"]):
            if sl:
                wl = wake_line(v, n)
                if wl is not None:
                    s.line(wl)
                else:
                    s.gateway.nodes[n].sleeping = True  # 1.x: flag as restored from persistence
                self.sleeping[n] = True
        self.buffer: dict[tuple, str] = {}  # key -> encoded line (model)
        self.stale: set[tuple] = set()
        self.nontrivial = False
        self.last_desc = None

    # -- alphabet ------------------------------------------------------------
    def events(self) -> list:
        v = self.version
        evs = []
        for k in self.keys:
            for val in self.values:
                evs.append(["send", list(k), val])
        if self.cfg.get("acksend"):
            # the same key sent with the ack flag set: the flag is not part of "(child, value type)", so the later
            # send supersedes the earlier one whatever the two flags are
            for val in self.values:
                evs.append(["send", list(self.keys[0]), val, 1])
        n0, c0 = self.nodes[0], self.children[0]
        if self.cfg.get("twins"):
            # an internal command that may carry any child id (an id response), same node / child / type number as a set key
            k0 = self.keys[0]
            evs.append(["send-internal", [k0[0], k0[1], k0[2]], "9"])
        for n in self.nodes:
            wl = wake_line(v, n)
            if wl:
                evs.append(["wake", n])
        if self.cfg.get("ackwake"):
            for n in self.nodes:
                evs.append(["wake", n, 1])  # the same announcement with the ack flag set
        for n in self.nodes:
            evs.append(["line", f"{n};{c0};1;0;2;x"])  # a set from the node (non-wake traffic)
        # the node reports exactly a value the application also sends, and echoes one with the ack flag set
        evs.append(["line", f"{n0};{c0};1;0;2;{self.values[0]}"])
        evs.append(["line", f"{n0};{c0};1;1;2;{self.values[-1]}"])
        # the node asks for a value: for exactly the key a command is parked under, and for another one
        evs.append(["req", n0, c0, 2])
        evs.append(["req", n0, self.children[-1], 3])
        evs.append(["line", f"{n0};255;3;0;0;0"])  # battery report
        if v == "2.2":
            evs.append(["line", f"{n0};255;3;0;22;0"])  # heartbeat response is not a wake in 2.2
        if not R.is2x(v):
            evs.append(["line", f"{n0};255;3;0;22;0"])  # type does not exist in 1.x
        for n in self.nodes:
            evs.append(["present", n])
        return evs

    # -- transition + oracle ---------------------------------------------------
    def apply(self, ev: list) -> list:
        s = self.s
        v = self.version
        viols = []
        self.nontrivial = False
        kind = ev[0]

        def bad(k, what):
            viols.append((f"C07|{k}|{v}", f"[{v}] {what}", None))

        if kind == "send-internal":
            n, c, t = ev[1]
            key = (n, c, 1000 + t)  # internal commands live in a key space of their own
            line = R.enc(n, c, 3, 0, t, ev[2])
            out = s.send(Message(n, c, 3, 0, t, ev[2]))
            self.last_desc = out.describe()
            if out.kind != "return":
                bad("send-raised", f"send of {line!r} raised {type(out.exc).__name__}")
            if self.sleeping[n] and not out.attempts:
                self.nontrivial = True
                self.buffer[key] = line  # held like a set command (C12): released at the wake, and must not displace one
                self.stale.discard(key)
            elif out.writes != [line]:
                bad("send-awake-not-written", f"internal command for node {n}: expected write {line!r}, got {out.writes}")
            else:
                self.buffer.pop(key, None)  # written now: supersedes what was parked for the same key
        elif kind == "send":
            n, c, t = ev[1]
            key = (n, c, t)
            val = ev[2]
            ack = ev[3] if len(ev) > 3 else 0
            line = R.enc(n, c, 1, ack, t, val)
            out = s.send(Message(n, c, 1, ack, t, val))
            self.last_desc = out.describe()
            if out.kind != "return":
                bad("send-raised", f"send of set {line!r} raised {type(out.exc).__name__}")
            if self.sleeping[n]:
                self.nontrivial = True
                if out.attempts:
                    bad("send-sleeping-wrote", f"set for sleeping node {n} was written at send time: {out.writes}")
                self.buffer[key] = line
                self.stale.discard(key)
            else:
                if out.writes != [line]:
                    bad("send-awake-not-written", f"set for awake node {n}: expected write {line!r}, got {out.writes}")
                # the value written now is the most recently sent one: an older value still parked for the same key (from
                # before the node presented itself again) must not be released after it
                self.buffer.pop(key, None)
        elif kind == "wake":
            n = ev[1]
            wl_now = wake_line(v, n) if len(ev) < 3 else wake_line(v, n).replace(";3;0;", ";3;1;", 1)
            out = s.line(wl_now)
            self.last_desc = out.describe()
            self.sleeping[n] = True
            mine = {k: l for k, l in self.buffer.items() if k[0] == n}
            must = Counter(l for k, l in mine.items() if k not in self.stale)
            may = Counter(mine.values())
            got = Counter(w for w in out.writes if ";3;0;19;" not in w)
            if mine:
                self.nontrivial = True
            if out.kind != "yield":
                bad("wake-raised", f"wake of node {n} raised {type(out.exc).__name__}: {out.exc}")
            elif ";".join(str(x) for x in out.fields) != wl_now:
                bad("wake-line-not-yielded", f"the wake line {wl_now!r} of node {n} was yielded as {out.fields}")
            missing = must - got
            extra = got - may
            if missing:
                bad("wake-missing", f"wake of node {n} did not write parked {sorted(missing)}; wrote {out.writes}")
            if extra:
                dup = [w for w in extra if w in may]
                if dup:
                    bad("wake-duplicate", f"wake of node {n} wrote {dup} more than once")
                else:
                    bad("wake-extra", f"wake of node {n} wrote {sorted(extra)} which is not a parked command of that node")
            for k in mine:
                self.buffer.pop(k)
                self.stale.discard(k)
        elif kind == "present":
            n = ev[1]
            out = s.line(f"{n};255;0;0;{self.node_type};{self.node_version}")
            self.last_desc = out.describe()
            self.sleeping[n] = False
            got = [w for w in out.writes if ";3;0;19;" not in w]
            if got:
                bad("other-step-wrote", f"node presentation wrote {got}")
        elif kind == "req":
            n, c, t = ev[1:]
            node = s.gateway.nodes.get(n)
            child = node.children.get(c) if node is not None else None
            stored = child.values.get(t) if child is not None else None
            allowed = [R.enc(n, c, 1, 0, t, stored)] if stored is not None else []
            out = s.line(f"{n};{c};2;0;{t};")
            self.last_desc = out.describe()
            got = [w for w in out.writes if ";3;0;19;" not in w]
            if (n, c, t) in self.buffer:
                self.nontrivial = True
            if got != allowed:
                parked = self.buffer.get((n, c, t))
                bad("req-released-parked" if parked in got else "other-step-wrote", f"value request {n};{c};2;0;{t}; (stored value {stored!r}, parked command {parked!r}) wrote {got}, expected {allowed}")
        else:
            out = s.line(ev[1])
            self.last_desc = out.describe()
            got = [w for w in out.writes if ";3;0;19;" not in w]
            if got:
                bad("other-step-wrote", f"non-wake line {ev[1]!r} wrote {got}")
        return viols

    def key(self):
        return (
            canon_gateway(self.s.gateway),
            tuple(sorted(self.buffer.items())),
            tuple(sorted(self.stale)),
            tuple(sorted(self.sleeping.items())),
        )


def make(cfg):
    return Monitor(cfg)


def configs(ctx: core.Ctx) -> list:
    if ctx.quick:
        versions = ["2.1", "2.2"]
        keys = [[1, 3, 2], [1, 4, 2], [2, 3, 2]]
    else:
        versions = list(R.VERSIONS)
        keys = [[1, 3, 2], [1, 3, 3], [1, 4, 2], [2, 3, 2]]
    cfgs = []
    for v in versions:
        sleeps = [[True, True]] if R.is2x(v) else [[True, False], [True, True]]
        # in 2.x the awake configurations are reachable via 'present'; starting asleep reaches all
        for sl in sleeps:
            k = keys
            if ctx.quick and v != "2.2":
                k = [[1, 3, 2], [2, 3, 2]]  # quick: the full key set only under 2.2
            cfgs.append({"version": v, "keys": k, "values": ["a", "b"], "sleep": sl})
    # boundary ids: highest assignable node id 254, the gateway's own id 0, child ids 0 and 254
    for v in (["2.2"] if ctx.quick else ["1.5", "2.0", "2.2"]):
        cfgs.append({"version": v, "nodes": [254, 0], "children": [0, 254], "keys": [[254, 0, 2], [0, 0, 2]] if ctx.quick else [[254, 0, 2], [254, 254, 2], [0, 0, 2]], "values": ["a", "b"], "sleep": [True, True]})
        # nodes that presented themselves as repeater nodes (type 18)
        cfgs.append({"version": "2.1" if v == "2.2" else v, "node_type": 18, "keys": [[1, 3, 2], [2, 3, 2]], "values": ["a", "b"], "sleep": [True, True]})
        # ids one of which is a decimal prefix of the other (25 / 254), child ids likewise (2 / 25)
        cfgs.append({"version": v, "nodes": [25, 254], "children": [2, 25], "keys": [[25, 2, 2], [254, 25, 2]] if ctx.quick else [[25, 2, 2], [254, 25, 2], [254, 2, 25]], "values": ["a", "b"], "sleep": [True, True]})
    cfgs.append({"version": "2.1", "keys": [[1, 3, 2], [2, 3, 2]], "values": ["a", "b"], "sleep": [True, True], "ackwake": True})
    cfgs.append({"version": "2.2", "keys": [[1, 3, 2]], "values": ["a", "b"], "sleep": [True, True], "ackwake": True})
    # eleventh wave: the application sends the same key with and without the ack flag
    cfgs.append({"version": "2.1", "keys": [[1, 3, 2], [2, 3, 2]], "values": ["a", "b"], "sleep": [True, True], "acksend": True})
    cfgs.append({"version": "2.2", "keys": [[1, 3, 2]], "values": ["a", "b"], "sleep": [True, True], "acksend": True})
    # a set key and an internal command with the same node / child / type number (4 = V_PRESSURE / I_ID_RESPONSE)
    cfgs.append({"version": "2.2", "keys": [[1, 3, 4], [1, 3, 2]], "values": ["a", "b"], "sleep": [True, True], "twins": True})
    # value types the active protocol has no name for (47 under 1.x, 60 everywhere): still a set command
    cfgs.append({"version": "1.4", "keys": [[1, 3, 47], [1, 3, 2]], "values": ["a", "b"], "sleep": [True, False]})
    cfgs.append({"version": "2.1", "keys": [[1, 3, 60], [2, 3, 47]], "values": ["a", "b"], "sleep": [True, True]})
    # nodes whose own library version differs from the gateway's (newer, older, not a version at all)
    for v, nvs in (("2.1", ["2.3.2", "1.4"]), ("2.2", ["2.0"])) if ctx.quick else (("2.0", ["2.2", "2.3.2", "1.4", ""]), ("2.1", ["2.2.0", "2.3.2", "1.5", "junk"]), ("2.2", ["2.0", "2.1.1", "1.4"])):
        for nv in nvs:
            cfgs.append({"version": v, "node_version": nv, "keys": [[1, 3, 2], [2, 3, 2]], "values": ["a", "b"], "sleep": [True, True]})
    return cfgs


def stress_case(job) -> list:
    """Capacity: many distinct commands (set keys and internal types) parked for ONE sleeping node, while a
    second node also has some; at the wake every one of the woken node's commands is written exactly once."""
    version, nset, nint = job
    viols = []
    s = Session(version)
    wt = R.wake_type(version)
    for n in (1, 2):
        s.line(f"{n};255;0;0;17;{version}")
        for c in range(8):
            s.line(f"{n};{c};0;0;3;")
        s.line(f"{n};255;3;0;{wt};0")
    want = []
    k = 0
    for c in range(8):
        for t in range(8):
            if k >= nset:
                break
            k += 1
            want.append(R.enc(1, c, 1, 0, t, f"v{k}"))
            s.send(Message(1, c, 1, 0, t, f"v{k}"))
    for t in range(nint):
        want.append(R.enc(1, 255, 3, 0, t, f"i{t}"))
        s.send(Message(1, 255, 3, 0, t, f"i{t}"))
    s.send(Message(2, 0, 1, 0, 0, "other"))
    if s.transport.attempts:
        viols.append((f"C07|stress-written-early|{version}", f"[{version}] {len(s.transport.attempts)} of {len(want)} parked commands were written before the wake", {"stress": list(job)}))
    out = s.line(f"1;255;3;0;{wt};0")
    got = Counter(out.writes)
    missing = [w for w in want if got[w] != 1]
    extra = [w for w in out.writes if w not in want]
    if out.kind != "yield" or missing or extra:
        viols.append((f"C07|stress-wake|{version}", f"[{version}] {nset} set + {nint} internal commands parked for node 1: wake gave {out.kind} {type(out.exc).__name__ if out.exc else ''}; {len(missing)} not written exactly once (e.g. {missing[:2]}), {len(extra)} foreign writes (e.g. {extra[:2]})", {"stress": list(job)}))
    out2 = s.line(f"1;255;3;0;{wt};0")
    if out2.writes:
        viols.append((f"C07|stress-rewritten|{version}", f"[{version}] a second wake wrote {out2.writes[:3]} again", {"stress": list(job)}))
    return viols


def timeout_pass(ctx: core.Ctx):
    """'Written when that node next announces it is awake' also when the application's wait for the next message
    (the one that was handling the wake) timed out in the middle of the release: what was not written stays
    parked and is written at the next wake, once. Reuses the schedule explorer and scenario of C09."""
    from .. import explore
    from . import c09

    cfgs = [
        {"version": "2.2", "parked": [c09.A, c09.B], "senders": [], "cancels": 1},
        {"version": "2.1", "parked": [c09.A, c09.C, c09.I], "senders": [], "cancels": 1},
        {"version": "2.0", "parked": [c09.A], "senders": [[c09.E]], "cancels": 1},
    ]
    res = explore.explore(ctx, c09.MOD, cfgs, 1)
    viols = [core.Violation("C07|timeout|" + v.key.split("|", 1)[1], "the wait for the next message timed out during a release: " + v.what, dict(v.replay, race=True)) for v in res["violations"]]
    return res["executions"], viols


def run(ctx: core.Ctx) -> core.Report:
    sjobs = [(v, ns, ni) for v in (["2.1", "2.2"] if ctx.quick else ["2.0", "2.1", "2.2"]) for ns, ni in ((1, 0), (10, 10), (21, 0), (0, 11), (40, 15), (64, 29))]
    sres = core.pmap(stress_case, sjobs, ctx.workers)
    sviols = [core.Violation(k, w, rep) for r in sres for k, w, rep in r]
    res = bfs.search(ctx, MOD, configs(ctx), max_depth=40)
    nto, tviols = timeout_pass(ctx)
    sviols += tviols
    cov = {
        "states": res["states"],
        "transitions": res["transitions"],
        "traces_validated_against_impl": res["transitions"],
        "exhaustive": res["closed"],
        "distinct_nontrivial_transitions": res["nontrivial_transitions"],
        "rule": "every transition is one real Gateway.send / Gateway.listen step; non-trivial = a send to a sleeping node or a wake with parked commands",
        "bounds": {"depth": "fixed point" if res["closed"] else "not closed", "per_cfg": res["per_cfg"]},
        "samples": ctx.pick(res["samples"], 3),
    }
    return core.Report(
        level="model_checking",
        coverage=cov,
        violations=res["violations"] + sviols,
        assumptions=[
            "sequential semantics (concurrent send vs flush is C09), plus a timeout pass: the wait that handles the wake is cancelled during a release write (three scenarios, every position, <= 1 early firing)",
            "1.x sleeping flag set directly on the Node (public attribute), as a loaded persistence file would",
            "a parked command superseded by a direct write of a newer value (the node presented itself again and is awake) must not be released at the next wake: the wake carries the most recently sent value",
        ],
    )


def replay(data: dict) -> dict:
    if data.get("race"):
        from .. import explore
        from . import c09

        return explore.replay(c09.MOD, data)
    if "stress" in data:
        v = stress_case(tuple(data["stress"]))
        return {"violated": bool(v), "violations": [{"key": k, "what": w} for k, w, _ in v]}
    return bfs.replay_history(MOD, data)
