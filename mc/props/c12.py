"""C12 — send never silently discards a message. E3, exhaustive product."""

from __future__ import annotations

from collections import deque

from aiomysensors.exceptions import AIOMySensorsError, InvalidMessageError
from aiomysensors.model.message import Message

from .. import core, refmodel as R
from ..harness import Session

DESTS = ("unknown", "awake", "sleeping")
# more ways of being a sleeping destination: a repeater-type node restored from persistence as sleeping, and a node that
# announced sleep and then presents itself again as a repeater before its next wake (reduced message list)
DESTS_EXTRA = ("sleeping-restored-repeater", "sleeping-restored", "sleeping-then-repeater")
BUFFERS = (None, True, False)  # None = default argument
NODE = 12
BYSTANDER = 1  # another sleeping node whose decimal id is a prefix of NODE's


def build(version: str, dest: str) -> Session:
    s = Session(version)
    # a bystander: known, with a child, sleeping (what is held for NODE is none of its business)
    s.line(f"{BYSTANDER};255;0;0;17;{version}")
    s.line(f"{BYSTANDER};3;0;0;3;")
    wt0 = R.wake_type(version)
    if wt0 is not None:
        s.line(f"{BYSTANDER};255;3;0;{wt0};0")
    else:
        s.gateway.nodes[BYSTANDER].sleeping = True
    if dest != "unknown":
        s.line(f"{NODE};255;0;0;{18 if dest == 'sleeping-restored-repeater' else 17};{version}")
        s.line(f"{NODE};3;0;0;3;")
        if dest in ("sleeping-restored-repeater", "sleeping-restored"):
            s.gateway.nodes[NODE].sleeping = True  # as loaded from a persistence file of an earlier session
        if dest in ("sleeping", "sleeping-then-repeater"):
            wt = R.wake_type(version)
            if wt is not None:
                out = s.line(f"{NODE};255;3;0;{wt};0")
                assert out.kind == "yield"
            else:
                s.gateway.nodes[NODE].sleeping = True
            assert s.gateway.nodes[NODE].sleeping
    return s


class WakeResult:
    def __init__(self, writes, early):
        self.writes = writes
        self.early = early  # what was written before the destination's own wake


def wake(s: Session, version: str, echo_of: tuple | None = None, dest: str = "sleeping"):
    """Traffic that is not the destination's wake (its own reports, the bystander's wake), then the next
    wake of the destination. Under 1.x a wake can only exist after a 2.2 version report."""
    if not R.is2x(version):
        s.line("0;255;3;0;2;2.2.0")
        version = "2.2"
    early = []
    node = s.gateway.nodes.get(NODE)
    if node is not None:
        node.reboot = True  # the application has asked for a reboot of the destination (public flag)
    traffic = [f"{NODE};3;1;0;2;r", f"{NODE};255;3;0;0;50", f"{NODE};3;0;0;3;again", f"{BYSTANDER};255;3;0;{R.wake_type(version)};0", f"{BYSTANDER};3;1;0;2;r"]
    if echo_of is not None and echo_of[2] == 1:
        # the destination echoes an older command for the same child and value type (ack flag set)
        traffic.insert(1, f"{echo_of[0]};{echo_of[1]};1;1;{echo_of[4]};older")
        # ... and asks for the value of exactly that child and value type (answered with the STORED value: C06)
        traffic.insert(2, f"{echo_of[0]};{echo_of[1]};2;0;{echo_of[4]};")
    if dest == "sleeping-then-repeater":
        traffic = [f"{NODE};255;0;0;18;{version}", f"{NODE};3;0;0;3;"] + traffic
    for line in traffic:
        early += s.line(line).writes
    out = s.line(f"{NODE};255;3;0;{R.wake_type(version)};0")
    return WakeResult(out.writes, early)


def cases(version: str) -> list:
    out = []
    for t in range(0, 61):
        out.append((NODE, 255, 0, 0, t, version))
        out.append((NODE, 3, 0, 0, t, "d"))
        out.append((NODE, 3, 1, 0, t, "v"))
        out.append((NODE, 3, 1, 1, t, "v"))
        out.append((NODE, 3, 2, 0, t, ""))
    for t in range(-1, 42):
        out.append((NODE, 255, 3, 0, t, "p"))
        if t in (R.I_ID_REQUEST, R.I_ID_RESPONSE):
            out.append((NODE, 7, 3, 0, t, "9"))
    for t in range(-1, 9):
        out.append((NODE, 255, 4, 0, t, "fw"))
    return [f for f in out if R.cross_field_ok(*f[:5])]


def check_case(version: str, f: tuple, buf, dest: str) -> list:
    viols = []
    line = R.enc(*f)

    def bad(k, what):
        viols.append(
            (
                f"C12|cmd={f[2]}|buffer={buf}|dest={dest}|{k}",
                f"[{version}] send({f}, message_buffer={'default' if buf is None else buf}) to {dest} node: {what}",
                {"version": version, "fields": list(f), "buffer": buf, "dest": dest},
            )
        )

    s = build(version, dest)
    out = s.send(Message(*f), buf)
    if out.kind == "raise":
        if not isinstance(out.exc, AIOMySensorsError):
            bad(f"foreign-exception:{type(out.exc).__name__}", f"raised {type(out.exc).__name__}: {out.exc}")
        return viols
    if out.writes == [line]:
        return viols
    if out.writes:
        bad("wrote-other", f"wrote {out.writes}, expected {line!r}")
        return viols
    # nothing written: must be held for the destination and released at its next wake
    if dest == "unknown":
        bad("silently-discarded", "returned normally, wrote nothing, and the destination is not a known node (no wake can release it)")
        return viols
    w = wake(s, version, f, dest)
    n = w.writes.count(line)
    if line in w.early:
        bad("released-by-other-traffic", f"held, but written before the destination's own wake (by its non-wake reports or another node's wake): {w.early}")
    elif n == 0:
        bad("silently-discarded", f"returned normally, wrote nothing, and the destination's next wake wrote {w.writes}")
    elif n > 1:
        bad("released-twice", f"the next wake wrote it {n} times")
    return viols


def check_sequence(version: str, seq: list, buf, dest: str) -> list:
    """Histories: several sends in a row on one gateway (a send must not be swallowed because of an earlier one)."""
    viols = []
    s = build(version, dest)
    pending: list[str] = []
    for i, f in enumerate(seq):
        line = R.enc(*f)
        out = s.send(Message(*f), buf)

        def bad(k, what):
            viols.append((f"C12|seq|cmd={f[2]}|buffer={buf}|dest={dest}|{k}", f"[{version}] send #{i} of {seq} (message_buffer={buf}) to {dest} node: {what}",
                          {"version": version, "seq": [list(x) for x in seq], "buffer": buf, "dest": dest}))

        if out.kind == "raise":
            if not isinstance(out.exc, AIOMySensorsError):
                bad(f"foreign-exception:{type(out.exc).__name__}", f"raised {out.exc!r}")
            continue
        if out.writes == [line]:
            continue
        if out.writes:
            bad("wrote-other", f"wrote {out.writes}, expected {line!r}")
            continue
        pending.append(line)
    if pending:
        if dest == "unknown":
            viols.append((f"C12|seq|buffer={buf}|dest={dest}|silently-discarded", f"[{version}] sends {seq}: {pending} neither written nor raised, destination unknown",
                          {"version": version, "seq": [list(x) for x in seq], "buffer": buf, "dest": dest}))
            return viols
        w = wake(s, version, None, dest)
        # for one key the newest value supersedes older parked ones; every key must be released
        last_per_key = {}
        for line in pending:
            f = line.split(";", 5)
            last_per_key[(f[0], f[1], f[2], f[4])] = line
        for key, line in last_per_key.items():
            if line in w.early:
                viols.append((f"C12|seq|buffer={buf}|dest={dest}|released-by-other-traffic", f"[{version}] sends {seq}: held {line!r} was written before the destination's own wake: {w.early}",
                              {"version": version, "seq": [list(x) for x in seq], "buffer": buf, "dest": dest}))
            elif w.writes.count(line) != 1:
                viols.append((f"C12|seq|buffer={buf}|dest={dest}|silently-discarded", f"[{version}] sends {seq}: held {line!r} was written {w.writes.count(line)} times at the next wake ({w.writes})",
                              {"version": version, "seq": [list(x) for x in seq], "buffer": buf, "dest": dest}))
        # eleventh wave: a transport write fails during that wake, at each position of the release. "Handed to the
        # transport at that node's next wake" has then happened for the lines whose write was attempted; every other
        # held line is still held (C08) and must be handed over at the wake after that - never silently dropped.
        if len(last_per_key) >= 2 and R.is2x(version) and not viols:
            for k in range(len(last_per_key)):
                s2 = build(version, dest)
                for f in seq:
                    s2.send(Message(*f), buf)
                s2.transport.fail_plan = deque([False] * k + [True])
                wt = R.wake_type(version)
                o1 = s2.line(f"{NODE};255;3;0;{wt};0")
                s2.transport.fail_plan = None
                o2 = s2.line(f"{NODE};255;3;0;{wt};0")
                offered = [a[0] for a in o1.attempts] + [a[0] for a in o2.attempts]
                for key, line in last_per_key.items():
                    if line not in offered:
                        viols.append((f"C12|seq|buffer={buf}|dest={dest}|silently-discarded-after-write-fault",
                                      f"[{version}] sends {seq}: held {line!r} was never handed to the transport in the two wakes after them, of which the first had write #{k} fail (attempts {o1.attempts} then {o2.attempts})",
                                      {"version": version, "seq": [list(x) for x in seq], "buffer": buf, "dest": dest}))
    return viols


def sequences() -> list:
    a = (NODE, 3, 1, 0, 2, "v")
    b = (NODE, 3, 1, 0, 2, "w")
    c = (NODE, 3, 1, 0, 3, "v")
    i1 = (NODE, 255, 3, 0, 13, "x")  # (not the empty payload: that is the gateway's own reboot reaction)
    i2 = (NODE, 255, 3, 0, 6, "M")
    r = (NODE, 3, 2, 0, 2, "")
    p = (NODE, 3, 0, 0, 3, "d")
    st = (NODE, 255, 4, 0, 1, "fw")
    tw_i = (NODE, 3, 3, 0, 4, "9")  # an id response on child 3 (internal, type 4) ...
    tw_s = (NODE, 3, 1, 0, 4, "1013")  # ... and a set of value type 4 on the same child
    items = [a, b, c, i1, i2, r, p, st, tw_i, tw_s]
    out = []
    for x in items:
        for y in items:
            out.append([x, y])
    out += [[a, a, a], [a, b, a], [i1, i1, i1], [a, i1, a, i1], [r, r, r]]
    return out


def job(j):
    version, dest = j
    viols = []
    n = held = 0
    for seq in sequences():
        for buf in BUFFERS:
            n += 1
            viols += check_sequence(version, seq, buf, dest)
    for f in (cases(version) if dest in DESTS else [c for c in cases(version) if c[4] in (0, 2, 6, 13, 18)]):
        for buf in BUFFERS:
            n += 1
            v = check_case(version, f, buf, dest)
            viols += v
    # non-messages
    from types import SimpleNamespace

    from aiomysensors.model.node import Child, Node

    partial = [Node(3, 17, "2.0"), Child(1, 3), {"node_id": 1, "child_id": 1}, SimpleNamespace(node_id=1, child_id=255, command=3, message_type=2),
               SimpleNamespace(node_id=1, child_id=1, command=1, ack=0, message_type=2), SimpleNamespace(payload="x"), (1, 1, 1, 0, 2, "x"), "1;1;1;0;2;x\n", 1.5, object()]
    for obj in ["invalid", None, 5, {}, b"1;1;1;0;2;x", ["1", "1"], *partial]:
        n += 1
        s = build(version, dest)
        out = s.send(obj, None)
        if not (out.kind == "raise" and isinstance(out.exc, InvalidMessageError)):
            viols.append(
                (f"C12|non-message|{type(obj).__name__}", f"[{version}] send({obj!r}) gave {out.describe()}, expected the invalid-message error", {"version": version, "obj": repr(obj)[:80], "dest": dest, "nonmsg": True})
            )
    return n, viols


def loops_case(version: str) -> list:
    """One gateway object used by an application that runs its event loop three times in a row (asyncio.run per
    session): in every session two sends overlap (the first one's transport write is still in flight when the second
    starts). Each send must end written or with a library error, in every session."""
    from aiomysensors.gateway import Gateway

    from ..harness import AsyncScriptTransport, drive
    from ..vloop import VLoop

    viols = []
    t = AsyncScriptTransport(None)
    gw = Gateway(t)
    gw.protocol_version = version
    t.lines.extend([f"{NODE};255;0;0;17;{version}", f"{NODE};3;0;0;3;"])
    agen = gw.listen()
    drive(agen.__anext__())
    drive(agen.__anext__())
    for rnd in range(3):
        loop = VLoop()
        loop.enter()
        try:
            t.loop = loop
            t.sync = False
            msgs = [(NODE, 3, 1, 0, 2, f"a{rnd}"), (NODE, 3, 1, 0, 3, f"b{rnd}"), (NODE, 255, 3, 0, 13, f"c{rnd}")]
            tasks = []
            for f in msgs:
                tasks.append(loop.create_task(gw.send(Message(*f))))
                loop.run_ready()  # the earlier sends are now waiting for their transport writes
            for _ in range(50):
                loop.run_ready()
                if not t.pending_writes:
                    break
                t.complete_write(0)
            loop.run_ready()
            for f, task in zip(msgs, tasks):
                line = R.enc(*f)
                if not task.done():
                    viols.append((f"C12|loops|cmd={f[2]}|never-finished", f"[{version}] event loop #{rnd} of the application: send({f}) overlapping another send never finished", {"version": version, "loops": True}))
                elif task.cancelled() or task.exception() is not None:
                    exc = None if task.cancelled() else task.exception()
                    if not isinstance(exc, AIOMySensorsError):
                        viols.append((f"C12|loops|cmd={f[2]}|foreign-exception:{type(exc).__name__}", f"[{version}] event loop #{rnd} of the application: send({f}) overlapping another send ended with {exc!r}", {"version": version, "loops": True}))
                elif line not in t.written():
                    viols.append((f"C12|loops|cmd={f[2]}|silently-discarded", f"[{version}] event loop #{rnd}: send({f}) returned normally but {line!r} was not written: {t.written()[-4:]}", {"version": version, "loops": True}))
            t.sync = True
        finally:
            loop.shutdown()
        if viols:
            break
    return viols


def race_pass(ctx: core.Ctx):
    """'Every gateway state' includes the middle of a wake-up flush: a send that lands while the listener is
    suspended in a transport write must still end up written. Reuses the schedule explorer and scenario of C09
    (every schedule with <= 2 early firings); a held message that a newer one for the same key supersedes
    counts as delivered by the newer one."""
    from .. import explore
    from . import c09

    cfgs = [
        {"version": "2.2", "parked": [c09.A], "senders": [[c09.A]]},
        {"version": "2.1", "parked": [c09.A, c09.B], "senders": [[c09.B], [c09.C]]},
        {"version": "2.0", "parked": [c09.I, c09.A], "senders": [[c09.I], [c09.A]]},
    ]
    res = explore.explore(ctx, c09.MOD, cfgs, 2)
    viols = []
    for v in res["violations"]:
        if v.key.startswith("C09|lost-update") or v.key.startswith("C09|task-raised") or v.key.startswith("C09|hang"):
            viols.append(core.Violation("C12|race|" + v.key.split("|", 1)[1], "send during a wake-up flush: " + v.what, dict(v.replay, race=True)))
    return res["executions"], viols


def run(ctx: core.Ctx) -> core.Report:
    jobs = [(v, d) for v in R.VERSIONS for d in DESTS + DESTS_EXTRA]
    res = core.pmap(job, jobs, ctx.workers, chunksize=1)
    total = sum(r[0] for r in res)
    viols = [core.Violation(k, w, rep) for r in res for k, w, rep in r[1]]
    nrace, rviols = race_pass(ctx)
    total += nrace
    viols += rviols
    for r in core.pmap(loops_case, list(R.VERSIONS), ctx.workers, chunksize=1):
        viols += [core.Violation(k, w, rep) for k, w, rep in r]
    cs = cases("2.2")
    cov = {
        "evaluations": total,
        "distinct_nontrivial": total,
        "rule": "five versions x {presentation,set,req} types 0-60, internal types -1..41, stream types -1..8 (codec-accepted combinations only) x message_buffer default/True/False x destination unknown/awake/sleeping (and, for a reduced message list, restored-as-sleeping, restored-as-sleeping repeater, sleeping then re-presented as repeater), each on a fresh real gateway; every case is distinct; plus six non-message objects per (version, destination); plus 69 sequences of 2-4 sends (all ordered pairs of 8 message kinds, repeats) per (version, buffering, destination); plus every schedule with <= 2 early firings of three send-during-flush scenarios; plus three overlapping sends in each of three successive event loops on one gateway object",
        "exhaustive": True,
        "bounds": {"messages_per_version": len(cs), "buffers": 3, "destinations": 3},
        "samples": [list(cs[ctx.seed % len(cs)]), list(cs[-1]), "invalid"],
    }
    return core.Report(
        level="exploration",
        coverage=cov,
        violations=viols,
        assumptions=["under 1.x a wake is produced by first reporting version 2.2.0", "destination node 12 with one known child; a sleeping bystander node 1; between the send and the destination's wake the destination reports a value, its battery and re-presents a child, and the bystander wakes"],
    )


def replay(data: dict) -> dict:
    if data.get("loops"):
        v = loops_case(data["version"])
        return {"violated": bool(v), "violations": [{"key": k, "what": w} for k, w, _ in v]}
    if data.get("race"):
        from .. import explore
        from . import c09

        r = explore.replay(c09.MOD, data)
        r["violated"] = any(x["key"].split("|")[1] in ("lost-update", "hang") or x["key"].startswith("C09|task-raised") for x in r["violations"])
        return r
    if data.get("nonmsg"):
        return {"violated": True, "note": "non-message case; rerun the check"}
    if "seq" in data:
        v = check_sequence(data["version"], [tuple(x) for x in data["seq"]], data["buffer"], data["dest"])
        return {"violated": bool(v), "violations": [{"key": k, "what": w} for k, w, _ in v]}
    v = check_case(data["version"], tuple(data["fields"]), data["buffer"], data["dest"])
    return {"violated": bool(v), "violations": [{"key": k, "what": w} for k, w, _ in v]}
