"""C14 — loading a persistence file fails only with the persistence read error. E3, exhaustive."""

from __future__ import annotations

import copy
import itertools
import json

from aiomysensors.exceptions import PersistenceReadError
from aiomysensors.model.node import Child, Node

from .. import core, pers
from ..harness import canon_nodes

REPLACEMENTS = ["null", "true", "0", "-1", "3.5", "1e400", '""', '"x"', "[]", "[1]", "{}", '{"a": 1}', '"1"', "256", "101", "255", "254", "100", '"255"']


def native_doc() -> bytes:
    nodes = {
        1: Node(1, 17, "2.0", children={3: Child(3, 6, description="d", values={2: "on", 0: "21.5"}), 4: Child(4, 3)}, sketch_name="nm", sketch_version="1.1", battery_level=55, heartbeat=10, sleeping=True),
        2: Node(2, 18, "1.5"),
    }
    kind, val, vfs = pers.save_nodes(nodes)
    assert kind == "ok", val
    return bytes(vfs.files[pers.PATH])


def nonascii_doc() -> bytes:
    nodes = {7: Node(7, 17, "2.2.0", children={1: Child(1, 38, description="gps é ü", values={49: "40.7;-73.9;12", 47: "日本"})}, sketch_name="sk é")}
    kind, val, vfs = pers.save_nodes(nodes)
    assert kind == "ok", val
    raw = bytes(vfs.files[pers.PATH])
    # also as raw UTF-8 (a file written by another tool)
    return json.dumps(json.loads(raw), ensure_ascii=False, indent=1).encode("utf-8")


LEGACY = {
    "1": {
        "sensor_id": 1,
        "children": {"1": {"id": 1, "type": 38, "description": "", "values": {"49": "40.741894,-73.989311,12"}}},
        "type": 17,
        "sketch_name": None,
        "sketch_version": None,
        "battery_level": 0,
        "protocol_version": "2.0",
        "heartbeat": 0,
    },
    "0": {"sensor_id": 0, "children": {}, "type": None, "sketch_name": "gw", "sketch_version": "1", "battery_level": 0, "protocol_version": "2.0", "heartbeat": 0},
}


def paths(doc, prefix=()):
    """Every JSON path (tuple of keys/indices) in the document, the root included."""
    yield prefix
    if isinstance(doc, dict):
        for k, v in doc.items():
            yield from paths(v, prefix + (k,))
    elif isinstance(doc, list):
        for i, v in enumerate(doc):
            yield from paths(v, prefix + (i,))


def set_path(doc, path, value):
    doc = copy.deepcopy(doc)
    if not path:
        return value
    cur = doc
    for k in path[:-1]:
        cur = cur[k]
    cur[path[-1]] = value
    return doc


def mutate_key(doc, path, how):
    doc = copy.deepcopy(doc)
    cur = doc
    for k in path[:-1]:
        cur = cur[k]
    if not isinstance(cur, dict):
        return None
    k = path[-1]
    if how == "delete":
        del cur[k]
    elif how == "rename":
        cur[k + "_x"] = cur.pop(k)
    elif how == "add":
        if isinstance(cur[k], dict):
            cur[k]["unknown_key"] = 1
        else:
            return None
    return doc


def check_content(content: bytes | None, label: str, fail: dict | None = None) -> list:
    kind, val, nodes, _ = pers.load_bytes(content, fail=fail)
    if kind == "ok":
        return []
    if kind == "raise" and isinstance(val, PersistenceReadError):
        return []
    rep = {"content_hex": None if content is None else content.hex(), "label": label, "fail": None if not fail else {k: repr(v) for k, v in fail.items()}}
    excn = type(val).__name__ if kind == "raise" else kind
    shape = label.split(":")[0]
    return [(f"C14|foreign-exception:{excn}|{shape}", f"load of {label} ({(content or b'')[:80]!r}) gave {excn}: {str(val)[:160]}", rep)]


def load_histories() -> list:
    """Sequences of loads by ONE Persistence object into ONE registry (which may already hold nodes):
    each load must succeed or raise PersistenceReadError, whatever was loaded before."""
    from aiomysensors.persistence import Persistence

    from .. import fsshim

    viols = []
    docs = {
        "A": native_doc(),
        "B": json.dumps({"1": json.loads(native_doc())["1"]}).encode(),
        "C": json.dumps(LEGACY).encode(),
        "E": b"",
        "O": b"{}",
        "M": b'{"1": {"node_id": 1}}',
        "X": b"\xff{",
        # valid for the schema, but the keys do not match the ids inside (hand-edited file): node under "5", child 3 under "2"
        "K": json.dumps({"5": dict(json.loads(native_doc())["1"], children={"2": {"child_id": 3, "child_type": 6, "description": "", "values": {"2": "on"}}, "9": {"child_id": 9, "child_type": 3, "description": "", "values": {}}})}).encode(),
    }
    n = 0
    pres = (
        {},
        {1: Node(1, 18, "1.4", children={9: Child(9, 1)})},
        {2: Node(2, 17, "2.0"), 77: Node(77, 17, "2.0")},
        # the registry already knows the file's nodes and children, with other / more / fewer values than the file
        {1: Node(1, 17, "2.0", children={3: Child(3, 6, values={2: "off", 7: "extra"}), 4: Child(4, 3, values={1: "z"}), 1: Child(1, 38, values={49: "0,0,0", 50: "more"})})},
        {1: Node(1, 17, "2.0", children={3: Child(3, 0, description="other", values={0: "21.5"}), 1: Child(1, 3)}, sleeping=True), 2: Node(2, 18, "1.5", children={5: Child(5, 1, values={1: "x"})})},
    )
    for pre in pres:
        for seq in itertools.product(sorted(docs), repeat=3):
            n += 1
            nodes = copy.deepcopy(pre)
            p = Persistence(nodes, pers.PATH)
            for i, name in enumerate(seq):
                vfs = fsshim.VFS()
                vfs.files[pers.PATH] = bytearray(docs[name])
                kind, val = pers.run(p.load, vfs)
                if kind == "ok" or (kind == "raise" and isinstance(val, PersistenceReadError)):
                    continue
                excn = type(val).__name__ if kind == "raise" else kind
                viols.append((f"C14|history-foreign-exception:{excn}", f"registry initially {sorted(pre)}, loads {list(seq[: i + 1])} by one Persistence object: load #{i} gave {excn}: {str(val)[:160]}",
                              {"label": "history", "content_hex": None, "fail": None, "pre": sorted(pre), "seq": list(seq[: i + 1])}))
                break
    return n, viols


def concurrent_case(job) -> list:
    """Two gateways of one process use the same file at the same time (load/load, load/save), file operations
    completing in submission order; then the application starts a new event loop and they do it again.
    Every load must succeed or raise PersistenceReadError."""
    from aiomysensors.persistence import Persistence

    from .. import fsshim
    from ..vloop import VLoop

    doc_name, second = job
    docs = {"native": native_doc(), "invalid": b'{"1": {"node_id": 1}}', "empty": b"", "garbage": b"\xff{"}
    viols = []
    # the same two objects live through all three event loops (an application that calls asyncio.run per session)
    a = Persistence({}, pers.PATH)
    b = Persistence({9: Node(9, 17, "2.0")}, pers.PATH)
    for rnd in range(3):
        vfs = fsshim.VFS()
        vfs.files[pers.PATH] = bytearray(docs[doc_name])
        loop = VLoop()
        loop.enter()
        try:
            with fsshim.installed(vfs):
                # b's operation is in flight when a loads, and a reloads while its own save is in flight
                tasks = [(second, loop.create_task(b.load() if second == "load" else b.save()))]
                loop.run_ready()
                tasks.append(("load", loop.create_task(a.load())))
                loop.run_ready()
                tasks.append(("save", loop.create_task(a.save())))
                loop.run_ready()
                tasks.append(("load", loop.create_task(a.load())))
                for _ in range(20000):
                    if loop.ready_count():
                        loop.step()
                    elif loop.pending_jobs():
                        loop.run_job(loop.pending_jobs()[0])
                    else:
                        break
                for what, t in tasks:
                    if not t.done():
                        viols.append((f"C14|concurrent-{what}-never-finished", f"event loop #{rnd}: two gateways on one file ({doc_name}): a {what} did not finish", {"label": "concurrent", "content_hex": None, "fail": None, "job": list(job)}))
                    elif what == "load" and not t.cancelled() and t.exception() is not None and not isinstance(t.exception(), PersistenceReadError):
                        exc = t.exception()
                        viols.append((f"C14|concurrent-foreign-exception:{type(exc).__name__}", f"event loop #{rnd} of the process: two gateways use one file ({doc_name}) at the same time (load and {second}): load raised {type(exc).__name__}: {str(exc)[:160]}", {"label": "concurrent", "content_hex": None, "fail": None, "job": list(job)}))
        finally:
            loop.shutdown()
        if viols:
            break
    return viols


def grammar(quick: bool) -> list:
    atoms = ["null", "0", '"x"'] if quick else ["null", "true", "0", '"x"']
    keys = ['"1"', '"node_id"', '"children"'] if quick else ['"1"', '"x"', '"node_id"', '"children"']
    maxlist = 1 if quick else 2

    def level(prev: list) -> list:
        out = list(atoms)
        for n in range(maxlist + 1):
            for tup in itertools.product(prev, repeat=n):
                out.append("[" + ",".join(tup) + "]")
        out.append("{}")
        for k in keys:
            for v in prev:
                out.append("{" + f"{k}:{v}" + "}")
        for k1, k2 in itertools.combinations(keys, 2):
            for v1 in prev:
                for v2 in prev:
                    out.append("{" + f"{k1}:{v1},{k2}:{v2}" + "}")
        return out

    l1 = list(atoms)
    l2 = level(l1)
    l3 = level(l2)
    return list(dict.fromkeys(l3))


def job(chunk):
    viols = []
    for label, content, fail in chunk:
        viols += check_content(content, label, fail)
    return len(chunk), viols


def cases(ctx: core.Ctx) -> list:
    docs = {"native": native_doc(), "nonascii": nonascii_doc(), "legacy": json.dumps(LEGACY, indent=2, sort_keys=True).encode()}
    out = []
    # (a) every byte prefix
    for name, raw in docs.items():
        for i in range(len(raw) + 1):
            out.append((f"prefix:{name}:{i}", raw[:i], None))
    # (b) every JSON path: value replaced, key deleted/renamed/unknown key added
    for name, raw in docs.items():
        doc = json.loads(raw)
        for p in paths(doc):
            for r in REPLACEMENTS:
                text = json.dumps(set_path(doc, p, "@@R@@")).replace('"@@R@@"', r)
                out.append((f"replace:{name}:{'/'.join(map(str, p))}={r}", text.encode(), None))
            if p:
                for how in ("delete", "rename", "add"):
                    m = mutate_key(doc, p, how)
                    if m is not None:
                        out.append((f"{how}:{name}:{'/'.join(map(str, p))}", json.dumps(m).encode(), None))
    # (c) grammar: as whole document and as a node record
    for g in grammar(ctx.quick):
        out.append((f"grammar-doc:{g}", g.encode(), None))
        out.append((f"grammar-node:{g}", ('{"1":' + g + "}").encode(), None))
        out.append((f"grammar-children:{g}", ('{"1":{"node_id":1,"node_type":17,"protocol_version":"2.0","children":' + g + "}}").encode(), None))
    # (d) raw bytes
    for raw in (b"\xff", b"\xc3", b"\x00", b"\xff\xfe{}", b"{}\x00", b'{"1":"\xc3"}', b"\xef\xbb\xbf{}", b" ", b"\n", b"nan", b"Infinity", b"-Infinity", b"1e999", b"[" * 2000, b'{"a":' * 2000):
        out.append((f"raw:{raw[:12]!r}", raw, None))
    # huge integer literals (int() refuses more than 4300 digits) and nesting of every depth inside a record
    big = b"1" * 5000
    for where, doc in (("document", big), ("node-id", b'{"1": {"node_id": ' + big + b', "node_type": 17, "protocol_version": "2.0"}}'),
                       ("battery", b'{"1": {"node_id": 1, "node_type": 17, "protocol_version": "2.0", "battery_level": ' + big + b"}}"),
                       ("key", b'{"' + big + b'": {"node_id": 1, "node_type": 17, "protocol_version": "2.0"}}'),
                       ("child-value-key", b'{"1": {"node_id": 1, "node_type": 17, "protocol_version": "2.0", "children": {"1": {"child_id": 1, "child_type": 1, "values": {"' + big + b'": "x"}}}}}')):
        out.append((f"bigint:{where}", doc, None))
    for depth in (50, 200, 400, 500, 600, 750, 900, 1100, 1300, 1500, 3000):
        for opener, closer in ((b"[", b"]"), (b'{"a":', b"}")):
            deep = opener * depth + b"1" + closer * depth
            rec = b'{"node_id": 1, "node_type": 17, "protocol_version": "2.0", %s}'
            out.append((f"deep:unknown-field:{depth}", b'{"1": ' + rec % (b'"x": ' + deep) + b"}", None))
            out.append((f"deep:sketch-name:{depth}", b'{"1": ' + rec % (b'"sketch_name": ' + deep) + b"}", None))
            out.append((f"deep:children:{depth}", b'{"1": ' + rec % (b'"children": {"1": {"child_id": 1, "child_type": 1, "description": ' + deep + b"}}") + b"}", None))
            out.append((f"deep:child-value:{depth}", b'{"1": ' + rec % (b'"children": {"1": {"child_id": 1, "child_type": 1, "values": {"2": ' + deep + b"}}}") + b"}", None))
            out.append((f"deep:record:{depth}", b'{"1": ' + deep + b"}", None))
    # the file exists but cannot be written (read-only file, full disk): whatever load thinks of its content, a write
    # error is not what it may raise
    for name, raw in (("null", b"null"), ("zero", b"0"), ("list", b"[]"), ("empty-object", b"{}"), ("empty", b""), ("false", b"false"), ("string", b'""'), ("native", docs["native"]), ("legacy", docs["legacy"])):
        for exc in (PermissionError(13, "denied"), OSError(28, "no space left")):
            out.append((f"readonly:{name}:{type(exc).__name__}", raw, {"open-write": exc}))
    # faults at open / read / close
    for op in ("open", "read", "close"):
        for exc in (OSError(5, "I/O error"), PermissionError(13, "denied"), IsADirectoryError(21, "is a dir"), TimeoutError("t")):
            out.append((f"oserror:{op}:{type(exc).__name__}", docs["native"], {op: exc}))
    return out


def special_cases() -> list:
    """Missing file is created holding the current registry; an empty file loads as an empty registry."""
    viols = []
    cur = {5: Node(5, 17, "2.0", children={1: Child(1, 3, values={2: "v"})}, battery_level=7)}
    before = canon_nodes(cur)
    kind, val, nodes, vfs = pers.load_bytes(None, nodes=cur)
    if kind != "ok":
        viols.append(("C14|missing-file-error", f"missing file gave {kind} {val!r}", {"label": "missing", "content_hex": None, "fail": None}))
    elif pers.PATH not in vfs.files:
        viols.append(("C14|missing-file-not-created", "missing file was not created", {"label": "missing", "content_hex": None, "fail": None}))
    else:
        if canon_nodes(cur) != before:
            viols.append(("C14|missing-file-changed-registry", "loading a missing file changed the registry", {"label": "missing", "content_hex": None, "fail": None}))
        k2, v2, n2, _ = pers.load_bytes(bytes(vfs.files[pers.PATH]))
        if k2 != "ok" or canon_nodes(n2) != before:
            viols.append(("C14|created-file-differs", f"the created file does not load back to the current registry: {k2} {v2!r} {n2!r}", {"label": "missing", "content_hex": None, "fail": None}))
    kind, val, nodes, _ = pers.load_bytes(b"", nodes={})
    if kind != "ok" or nodes:
        viols.append(("C14|empty-file", f"empty file gave {kind} {val!r} registry {nodes!r}", {"label": "empty", "content_hex": "", "fail": None}))
    return viols


def run(ctx: core.Ctx) -> core.Report:
    cs = cases(ctx)
    chunks = [cs[i : i + 500] for i in range(0, len(cs), 500)]
    res = core.pmap(job, chunks, ctx.workers, chunksize=1)
    viols = [core.Violation(k, w, rep) for r in res for k, w, rep in r[1]]
    viols += [core.Violation(k, w, rep) for k, w, rep in special_cases()]
    nh, hv = load_histories()
    viols += [core.Violation(k, w, rep) for k, w, rep in hv]
    cjobs = [(d, sec) for d in ("native", "invalid", "empty", "garbage") for sec in ("load", "save")]
    for r in core.pmap(concurrent_case, cjobs, ctx.workers, chunksize=1):
        viols += [core.Violation(k, w, rep) for k, w, rep in r]
    kinds = {}
    for label, _, _ in cs:
        kinds[label.split(":")[0]] = kinds.get(label.split(":")[0], 0) + 1
    cov = {
        "evaluations": len(cs) + 2 + nh,
        "load_histories": nh,
        "distinct_nontrivial": len({c for _, c, _ in cs}),
        "by_kind": kinds,
        "rule": "every byte prefix of three valid files (native, non-ASCII UTF-8, legacy pymysensors); every JSON path of those documents with the value replaced by each of 15 values / key deleted / renamed / unknown key added; every JSON value of a small grammar (depth 3) as whole document, node record and children map; raw undecodable bytes; OSError at open/read/close. Each content is loaded by the real Persistence.load through real aiofiles on the virtual loop; plus every sequence of 3 loads from 7 files by one Persistence object into a registry that is empty or already holds nodes (other nodes, or the file's own nodes and children with other values); plus two gateways using one file at the same time (load/load, load/save) in three successive event loops of one process. distinct_nontrivial = number of distinct file contents",
        "exhaustive": True,
        "bounds": {"grammar_values": len(grammar(ctx.quick))},
        "samples": [cs[ctx.seed % len(cs)][0], cs[len(cs) // 2][0], cs[-20][0]],
    }
    return core.Report(level="exploration", coverage=cov, violations=viols, assumptions=["file opened with the locale's encoding (LC_ALL=C.UTF-8 exported by the runner)", "in-memory file system behind aiofiles.threadpool.sync_open"])


def replay(data: dict) -> dict:
    if data.get("label") == "concurrent":
        v = concurrent_case(tuple(data["job"]))
    elif data.get("label") == "history":
        _, v = load_histories()
    elif data.get("content_hex") is None and data.get("label") in ("missing", "empty"):
        v = special_cases()
    else:
        content = bytes.fromhex(data["content_hex"]) if data.get("content_hex") is not None else None
        if data.get("fail"):
            return {"violated": True, "note": "fault-injection case: rerun the check"}
        v = check_content(content, data.get("label", "replay"))
    return {"violated": bool(v), "violations": [{"key": k, "what": w} for k, w, _ in v]}
