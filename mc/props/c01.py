"""C01 — wire codec round trip. E3, exhaustive over a field grid x payload strings."""

from __future__ import annotations

import itertools

from aiomysensors.model.message import Message, MessageSchema
from aiomysensors.model.protocol import get_protocol

from .. import core, refmodel as R
from ..harness import Session

QUICK = {
    "node": [0, 1, 255],
    "child": [0, 1, 255],
    "ack": [0, 1],
    "type": [0, 3, 4, 255, -1],
    "sigma": [";", "a", "0", " ", "é"],
    "L": 3,
}
FULL = {
    "node": [0, 1, 9, 10, 100, 254, 255],
    "child": [0, 1, 10, 254, 255],
    "ack": [0, 1],
    "type": [0, 1, 3, 4, 9, 10, 255, 1000, -1],
    "sigma": [";", "a", "0", " ", ".", "-", "é", ","],
    "L": 4,
}
DOC_SAMPLES = ["40.741894;-73.989311;12", "55.722526;13.017972;18", "a;b", ";", ";;", "x;", ";x",
               # characters that mean something to csv / shell / format-string / regex machinery a decoder might be built on
               '"on"', '"', 'a;"b";c', '"1;2"', 'say "hi"', "'x'", "a,b", "a\\;b", "{0}", "{}", "%s", "%(a)s", "a|b", "a\tb", "x" * 200]


def payloads(alpha: dict) -> list:
    out = []
    for n in range(alpha["L"] + 1):
        for tup in itertools.product(alpha["sigma"], repeat=n):
            s = "".join(tup)
            if s != s.rstrip():
                continue  # the statement excludes trailing whitespace
            out.append(s)
    for s in DOC_SAMPLES:
        if s not in out:
            out.append(s)
    return out


def field_grid(alpha: dict) -> list:
    out = []
    for n, c, cmd, ack, t in itertools.product(alpha["node"], alpha["child"], range(5), alpha["ack"], alpha["type"]):
        if R.cross_field_ok(n, c, cmd, ack, t):
            out.append((n, c, cmd, ack, t))
    return out


_SCHEMAS: dict = {}


def schema(version: str) -> MessageSchema:
    s = _SCHEMAS.get(version)
    if s is None:
        s = _SCHEMAS[version] = MessageSchema()
        s.set_protocol(get_protocol(version))
    return s


def fields_of(m) -> tuple:
    return (m.node_id, m.child_id, m.command, m.ack, m.message_type, m.payload)


def check_codec(version: str, f: tuple, sch=None) -> list:
    viols = []
    semi = ";" in f[5]

    def bad(k, what):
        viols.append((f"C01|{k}|semicolon={semi}", f"[{version}] message {f}: {what}", {"version": version, "fields": list(f), "mode": "codec"}))

    sch = sch or schema(version)
    want = R.enc(*f)
    try:
        line = sch.dump(Message(*f))
    except Exception as exc:  # noqa: BLE001
        bad(f"encode-raised:{type(exc).__name__}", f"encoding raised {exc}")
        return viols
    if line != want:
        bad("encoded-form", f"encoded as {line!r}, expected {want!r}")
    try:
        back = sch.load(line)
        got = fields_of(back)
        if got != f or any(type(a) is not type(b) for a, b in zip(got, f)):
            bad("roundtrip-fields-differ", f"encode->decode gave {got}")
    except Exception as exc:  # noqa: BLE001
        bad(f"decode-raised:{type(exc).__name__}", f"decoding {line!r} raised {exc}")
    # (c) decode a reference-built well-formed line and re-encode it
    try:
        again = sch.dump(sch.load(want))
        if again.rstrip() != want.rstrip():
            bad("decode-encode-differs", f"{want!r} decoded and re-encoded gives {again!r}")
        if not again.endswith("\n") or again.count("\n") != 1:
            bad("terminator", f"re-encoded form {again!r} is not exactly one newline-terminated line")
    except Exception as exc:  # noqa: BLE001
        bad(f"decode-raised:{type(exc).__name__}", f"decoding {want!r} raised {exc}")
    # (e) a decoded message is a message like any other: change a field, encode, decode
    try:
        m = sch.load(want)
        m.payload = f[5] + "x"
        m.node_id = (f[0] + 1) % 256
        g = (m.node_id, f[1], f[2], f[3], f[4], m.payload)
        line2 = sch.dump(m)
        if line2 != R.enc(*g):
            bad("decoded-then-modified-encodes-stale", f"decoded {want!r}, set node_id={m.node_id} payload={m.payload!r}, encoded as {line2!r}, expected {R.enc(*g)!r}")
        # (f) the application changed the message it got; the same line arrives again
        again2 = sch.load(want)
        if fields_of(again2) != f:
            bad("decode-after-result-modified", f"{want!r} was decoded, the result object modified by the application, then the same line decoded again: {fields_of(again2)}")
    except Exception as exc:  # noqa: BLE001
        bad(f"modify-raised:{type(exc).__name__}", f"decode/modify/encode of {want!r} raised {exc}")
    return viols


def stream_case(job) -> list:
    """Encoded lines travel over a stream transport that breaks after every possible byte: what the transport
    hands to the decoder is the message that was encoded, or the break is reported as an error - never a different message."""
    import asyncio
    from unittest.mock import patch

    from aiomysensors.exceptions import AIOMySensorsError
    from aiomysensors.gateway import Gateway
    from aiomysensors.transport.serial import SerialTransport
    from aiomysensors.transport.tcp import TCPTransport

    from ..harness import drive, drive_loop

    version, kind = job
    viols = []
    msgs = [(12, 1, 1, 0, 0, "21.5"), (7, 4, 1, 1, 47, "a;b;c"), (1, 255, 3, 0, 11, "sketch é"), (255, 255, 3, 0, 3, ""), (1, 0, 2, 0, 2, "")]
    sch = schema(version)
    loop = drive_loop()

    class W:
        def write(self, b):
            pass

        async def drain(self):
            pass

        def close(self):
            pass

        async def wait_closed(self):
            pass

    for f in msgs:
        data = sch.dump(Message(*f)).encode("utf-8")
        for cut in range(len(data) + 1):
            reader = asyncio.StreamReader(loop=loop)
            reader.feed_data(data[:cut])
            reader.feed_eof()

            async def factory(*a, _r=reader, **kw):
                return _r, W()

            t = TCPTransport("h") if kind == "tcp" else SerialTransport("p")
            with patch("aiomysensors.transport.tcp.asyncio.open_connection" if kind == "tcp" else "aiomysensors.transport.serial.open_serial_connection", factory):
                drive(t.connect())
            try:
                from marshmallow import ValidationError

                try:
                    m = sch.load(drive(t.read()))
                except ValidationError:
                    continue
                got = fields_of(m)
                if got != f:
                    viols.append((f"C01|stream-break-yields-other-message|semicolon={';' in f[5]}", f"[{version}/{kind}] message {f} encoded as {data!r}; the connection ends after {cut} of {len(data)} bytes: the transport hands over a line that decodes to {got}", {"version": version, "mode": "stream", "kind": kind}))
                    break
            except AIOMySensorsError:
                pass
            except Exception as exc:  # noqa: BLE001
                viols.append((f"C01|stream-break-raised:{type(exc).__name__}|semicolon={';' in f[5]}", f"[{version}/{kind}] message {f}; the connection ends after {cut} bytes: {type(exc).__name__}: {exc}", {"version": version, "mode": "stream", "kind": kind}))
                break
    return viols


def check_e2e(version: str, payload: str) -> list:
    """Through a real gateway: send writes the reference line; listening to it yields the same and records the payload."""
    viols = []
    semi = ";" in payload
    f = (1, 1, 1, 0, 2, payload)

    def bad(k, what):
        viols.append((f"C01|e2e-{k}|semicolon={semi}", f"[{version}] payload {payload!r}: {what}", {"version": version, "fields": list(f), "mode": "e2e"}))

    s = Session(version)
    s.line(f"1;255;0;0;17;{version}")
    s.line("1;1;0;0;3;")
    out = s.send(Message(*f))
    if out.kind != "return" or out.writes != [R.enc(*f)]:
        bad("send", f"send gave {out.describe()}, expected write {R.enc(*f)!r}")
        return viols
    out2 = s.line(out.writes[0])
    if out2.kind != "yield" or out2.fields != f:
        bad("listen", f"listening to the written line gave {out2.describe()}")
    else:
        val = s.gateway.nodes[1].children[1].values.get(2)
        if val != payload:
            bad("registry", f"registry recorded {val!r}")
    return viols


def long_run(job) -> list:
    """One decoder object handles a long run of distinct messages (more than any plausible cache holds), then
    meets every one of them again, forwards and backwards; a second decoder under another protocol version is
    used in between. Every decode must still give exactly the spelled fields. `reset` = (k, to): after k lines
    the protocol of the decoder is set again (to the same version, or to another one and back), as a gateway
    does when the version report arrives after its first lines."""
    version, reset = (job, None) if isinstance(job, str) else job
    viols = []
    sch = MessageSchema()
    sch.set_protocol(get_protocol(version))
    other = MessageSchema()
    other.set_protocol(get_protocol("2.2" if version != "2.2" else "1.4"))
    msgs = []
    for n in range(0, 250, 7):
        for c in (0, 1, 200):
            for cmd, t in ((0, 6), (1, 2), (1, 47), (2, 0)):
                for ack in (0, 1):
                    msgs.append((n, c, cmd, ack, t, f"p{n}.{c}"))
    msgs += [(n, 255, 3, 0, t, "i") for n in range(0, 60) for t in (0, 6, 11)]
    # id requests / responses may carry any child id: ordinary traffic for other children comes before and after them
    msgs += [(n, c, 3, 0, t, "9") for n in (255, 12) for c in (0, 7, 254) for t in (3, 4)]

    def bad(k, f, what):
        viols.append((f"C01|long-run-{k}|semicolon=False", f"[{version}] one decoder, {len(msgs)} distinct messages, protocol set again {reset}: message {f}: {what}", {"version": version, "mode": "longrun", "reset": list(reset) if reset else None}))

    seq = msgs + msgs + msgs[::-1]
    for i, f in enumerate(seq):
        line = R.enc(*f)
        try:
            if reset and i == reset[0]:
                if reset[1] != version:
                    sch.set_protocol(get_protocol(reset[1]))
                    m = sch.load(R.enc(1, 1, 1, 0, 2, "between"))
                    if fields_of(m) != (1, 1, 1, 0, 2, "between"):
                        bad("decode-after-switch", f, f"decoded to {fields_of(m)}")
                sch.set_protocol(get_protocol(version))
            if i % 3 == 0:
                g = msgs[(i * 7 + 3) % len(msgs)]
                o = other.load(R.enc(*g))
                if fields_of(o) != g:
                    bad("second-decoder", g, f"the second decoder gave {fields_of(o)}")
                    break
            m = sch.load(line)
            if fields_of(m) != f:
                bad("decode", f, f"decoded to {fields_of(m)} (position {i} of the run)")
                break
            if sch.dump(m) != line:
                bad("encode", f, f"re-encoded as {sch.dump(m)!r}")
                break
        except Exception as exc:  # noqa: BLE001
            bad(f"raised:{type(exc).__name__}", f, f"{exc}")
            break
    return viols


def gateway_run(version: str) -> list:
    """Through a real gateway whose version report arrives after its first lines: a log line, the version
    reply, then several hundred distinct lines; each must be yielded with exactly the spelled fields."""
    viols = []
    s = Session(None)
    lines = ["0;255;3;0;9;starting", f"0;255;3;0;2;{version}"]
    lines += [f"{n};255;0;0;17;{version}" for n in range(1, 201)]
    lines += [f"{n};{c};0;0;3;d{c}" for n in range(1, 60) for c in (0, 1, 2)]
    lines += [f"{n};{c};1;{a};2;v{n}" for n in range(1, 60) for c in (0, 1, 2) for a in (0, 1)]
    lines += lines[2:202]
    for i, ln in enumerate(lines):
        out = s.line(ln)
        want = tuple(ln.split(";", 5))
        got = tuple(str(x) for x in out.fields) if out.kind == "yield" else None
        if out.kind != "yield" or got != want:
            viols.append((f"C01|gateway-run|semicolon=False", f"[{version}] line #{i} {ln!r} of a long session (version reported after the first line): {out.describe()}", {"version": version, "mode": "gatewayrun"}))
            break
    return viols


def after_activity(version: str) -> list:
    """The codec in a process that has used the rest of the library: a persistence file was saved and loaded
    (with and without error), a gateway ran a session with persistence configured, another decoder under
    another version rejected ill-formed lines. Then the field grid (broadcast id 255 included) must still
    round-trip exactly as in a process that did nothing else."""
    from aiomysensors.model.node import Child, Node

    from .. import pers

    viols = []
    nodes = {0: Node(0, 18, "2.2.0"), 1: Node(1, 17, "2.2", children={3: Child(3, 6, values={2: "on"})}, battery_level=7), 254: Node(254, 17, "1.4")}
    kind, val, v = pers.save_nodes(nodes)
    if kind == "ok":
        pers.load_bytes(bytes(v.files[pers.PATH]))
        pers.load_bytes(bytes(v.files[pers.PATH]), nodes=dict(nodes))
    pers.load_bytes(b"{not json")
    pers.load_bytes(b'{"1": {"node_id": 1}}')
    pers.load_bytes(None)
    s = Session("2.2" if version != "2.2" else "2.0", reset_modules=False)
    for ln in ("0;255;0;0;18;2.2", "255;255;3;0;3;", "5;255;0;0;17;2.2", "5;1;0;0;3;", "5;1;1;0;2;x", "bad", "5;255;3;0;0;300", "5;9;1;0;2;1", "5;255;3;0;32;500"):
        s.line(ln)
    s.send(Message(5, 1, 1, 0, 2, "y"))
    s.send(Message(255, 255, 3, 0, 20, ""))
    grid = field_grid(QUICK)
    n = 0
    own = MessageSchema()  # a decoder of its own: what this pass sees does not depend on earlier jobs of the worker
    own.set_protocol(get_protocol(version))
    for head in grid:
        for p in ("", "a;b"):
            n += 1
            for k, w, rep in check_codec(version, head + (p,), own):
                rep = dict(rep, mode="after-activity")
                viols.append((k.replace("C01|", "C01|after-activity-", 1), "in a process that has loaded and saved a persistence file and run a gateway session: " + w, rep))
        if len(viols) > 20:
            break
    return viols


def job(j):
    version, tier, fchunk = j
    alpha = QUICK if tier == "quick" else FULL
    pls = payloads(alpha)
    viols = []
    n = 0
    semi = 0
    for head in fchunk:
        for p in pls:
            n += 1
            semi += ";" in p
            viols += check_codec(version, head + (p,))
    return n, semi, viols


def job_e2e(j):
    version, pchunk = j
    viols = []
    for p in pchunk:
        viols += check_e2e(version, p)
    return len(pchunk), sum(";" in p for p in pchunk), viols


def run(ctx: core.Ctx) -> core.Report:
    alpha = QUICK if ctx.quick else FULL
    grid = field_grid(alpha)
    pls = payloads(alpha)
    chunk = max(1, len(grid) // (ctx.workers * 4))
    jobs = [(v, ctx.tier, grid[i : i + chunk]) for v in R.VERSIONS for i in range(0, len(grid), chunk)]
    res = core.pmap(job, jobs, ctx.workers, chunksize=1)
    pc = max(1, len(pls) // (ctx.workers * 2))
    jobs2 = [(v, pls[i : i + pc]) for v in R.VERSIONS for i in range(0, len(pls), pc)]
    res2 = core.pmap(job_e2e, jobs2, ctx.workers, chunksize=1)
    ljobs = list(R.VERSIONS) + [(v, r) for v in R.VERSIONS for r in ((1, v), (3, v), (100, v), (1, "2.2" if v != "2.2" else "1.4"), (127, "2.0" if v != "2.0" else "1.5"))]
    lres = core.pmap(long_run, ljobs, ctx.workers, chunksize=1)
    lres += core.pmap(gateway_run, list(R.VERSIONS), ctx.workers, chunksize=1)
    lres += core.pmap(stream_case, [(v, k) for v in R.VERSIONS for k in ("tcp", "serial")], ctx.workers, chunksize=1)
    # last: these jobs deliberately leave the worker processes "used"
    lres += core.pmap(after_activity, list(R.VERSIONS), ctx.workers, chunksize=1)
    total = sum(r[0] for r in res) + sum(r[0] for r in res2)
    semi = sum(r[1] for r in res) + sum(r[1] for r in res2)
    viols = [core.Violation(k, w, rep) for r in res + res2 for k, w, rep in r[2]]
    viols += [core.Violation(k, w, rep) for r in lres for k, w, rep in r]
    cov = {
        "evaluations": total,
        "distinct_nontrivial": semi,
        "rule": "field grid (filtered by the cross-field rules) x all payload strings up to length L over sigma without trailing whitespace, x five versions; each distinct message goes through encode, decode, re-encode of the real codec; set messages additionally through Gateway.send / Gateway.listen; plus long runs on one decoder (protocol set again after 1/3/100/127 lines, to the same or via another version), a long gateway session whose version report arrives late, encoded lines over a TCP / serial stream that ends after every possible byte, and the reduced grid re-run in a process that has used persistence and a gateway (not counted in evaluations); non-trivial = payload contains the ';' delimiter",
        "exhaustive": True,
        "bounds": {"field_combinations": len(grid), "payload_strings": len(pls), "sigma": alpha["sigma"], "L": alpha["L"]},
        "samples": [list(grid[ctx.seed % len(grid)]) + [pls[(ctx.seed * 7 + 11) % len(pls)]], list(grid[-1]) + [pls[-1]], [1, 1, 1, 0, 2, pls[len(pls) // 2]]],
    }
    return core.Report(
        level="exploration",
        coverage=cov,
        violations=viols,
        assumptions=["payload alphabet sigma and length bound L; field values from the boundary grid", "payloads with trailing whitespace or line terminators are outside the statement"],
    )


def replay(data: dict) -> dict:
    if data.get("mode") == "stream":
        v = stream_case((data["version"], data["kind"]))
        return {"violated": bool(v), "violations": [{"key": k, "what": w} for k, w, _ in v]}
    if data.get("mode") == "gatewayrun":
        v = gateway_run(data["version"])
        return {"violated": bool(v), "violations": [{"key": k, "what": w} for k, w, _ in v]}
    if data.get("mode") == "after-activity":
        v = after_activity(data["version"])
        return {"violated": bool(v), "violations": [{"key": k, "what": w} for k, w, _ in v]}
    if data.get("mode") == "longrun":
        v = long_run((data["version"], tuple(data["reset"])) if data.get("reset") else data["version"])
        return {"violated": bool(v), "violations": [{"key": k, "what": w} for k, w, _ in v]}
    f = tuple(data["fields"])
    v = check_codec(data["version"], f) if data["mode"] == "codec" else check_e2e(data["version"], f[5])
    return {"violated": bool(v), "violations": [{"key": k, "what": w} for k, w, _ in v]}
