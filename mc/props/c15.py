"""C15 — a crash during save never destroys the previously saved registry. Crash-point enumeration (E2/fsshim)."""

from __future__ import annotations

from aiomysensors.exceptions import PersistenceReadError
from aiomysensors.model.node import Child, Node

from .. import core, fsshim, pers
from ..harness import canon_nodes


def registry(i: int) -> dict:
    if i == 0:
        return {}
    if i == 1:
        return {1: Node(1, 17, "2.0")}
    if i == 2:
        return {1: Node(1, 17, "2.0", children={3: Child(3, 6, description="d", values={2: "on", 0: "21.5"})}, battery_level=55, sleeping=True)}
    if i == 3:
        return {2: Node(2, 18, "2.2.0", sketch_name="é ü", children={1: Child(1, 38, description="日本", values={49: "1;2;3"})}), 7: Node(7, 17, "1.5")}
    if i == 4:
        nodes = {}
        for n in range(1, 60):
            nodes[n] = Node(n, 17, "2.0", children={c: Child(c, 6, description=f"child {c} of {n}", values={0: "21.5", 2: "on"}) for c in range(4)}, sketch_name=f"sketch {n}")
        return nodes
    raise ValueError(i)


OTHER_PATH = fsshim.ROOT + "p.other"  # same directory, same stem, another last dotted part
_OTHER = None


class SaveFailed(Exception):
    pass


def other_registry() -> dict:
    return {42: Node(42, 17, "2.1", children={7: Child(7, 3, values={2: "bystander"})})}


def other_file() -> bytes:
    global _OTHER
    if _OTHER is None:
        kind, val, v = pers.save_nodes(other_registry())
        assert kind == "ok", val
        _OTHER = bytes(v.files[pers.PATH])
    return _OTHER


def crash_states(old: dict, new: dict, first: dict | None = None, loaded: str | None = None, open_fault: str | None = None):
    """save(old) completes, then save(new); yield (class, description, files, ops) for every crash point of
    that last save. With `first`: an earlier process left `first` in the file, and ONE Persistence object over
    one registry dict loads it, saves `old` and then saves `new`, as a running gateway does (state or side
    files kept between saves would show)."""
    from aiomysensors.persistence import Persistence

    vfs = fsshim.VFS()
    if loaded is not None:
        # an earlier process (this library, or pymysensors with its own layout) left `old` in the file; this
        # process loads it and the save that dies is the FIRST save of the session
        import copy
        import json

        from . import c13

        kind, val, _ = pers.save_nodes(copy.deepcopy(old), vfs)
        assert kind == "ok", val
        if loaded == "legacy":
            _, legacy = c13.legacy_of(json.loads(bytes(vfs.files[pers.PATH])))
            vfs.files[pers.PATH] = bytearray(json.dumps(legacy, indent=2, sort_keys=True).encode())
        nodes = {}
        saver = Persistence(nodes, pers.PATH)
        kind, val = pers.run(saver.load, vfs)
        assert kind == "ok", val
        nodes.clear()
        nodes.update(copy.deepcopy(new))
    elif first is None:
        kind, val, _ = pers.save_nodes(old, vfs)
        assert kind == "ok", val
        saver = None
    else:
        import copy

        # an earlier process left `first` in the file; this process loads it, saves `old`, then saves `new`
        kind, val, _ = pers.save_nodes(copy.deepcopy(first), vfs)
        assert kind == "ok", val
        nodes: dict = {}
        saver = Persistence(nodes, pers.PATH)
        kind, val = pers.run(saver.load, vfs)
        assert kind == "ok", val
        nodes.clear()
        nodes.update(copy.deepcopy(old))
        kind, val = pers.run(saver.save, vfs)
        assert kind == "ok", val
        nodes.clear()
        nodes.update(copy.deepcopy(new))
    # another gateway of the same process keeps its own registry in a sibling file of the same directory
    vfs.files[OTHER_PATH] = bytearray(other_file())
    base = vfs.state()
    vfs.log.clear()
    if open_fault is not None:
        # the first attempt to open the file for writing meets an OS-level error (permissions, too many open files,
        # quota): the save may fail, or work around it - whatever it does is a sequence of file operations too
        vfs.fail["open-write"] = {"PermissionError": PermissionError(13, "denied"), "OSError": OSError(24, "too many open files"), "FileExistsError": FileExistsError(17, "exists")}[open_fault]
    if saver is None:
        kind, val, _ = pers.save_nodes(new, vfs)
    else:
        kind, val = pers.run(saver.save, vfs)
    vfs.fail.clear()
    if kind != "ok" and open_fault is None:
        raise SaveFailed(f"{type(val).__name__}: {val}")
    ops = list(vfs.log)
    final = vfs.snapshot()
    st = fsshim.VFS.copy_state(base)
    yield ("before-any-op", "before the first file operation", fsshim.VFS.files_of(st), ops)
    for i, op in enumerate(ops):
        if op[0] == "write":
            data = op[3]
            n = len(data)
            if n <= 400:
                cuts = range(1, n)
            else:
                cuts = sorted(set(range(1, 65)) | set(range(n - 64, n)) | set(range(65, n - 64, 97)))
            for k in cuts:
                s2 = fsshim.VFS.copy_state(st)
                fsshim.VFS.apply(s2, op, upto=k)
                yield ("inside-write", f"inside raw write #{i} after {k} of {n} bytes", fsshim.VFS.files_of(s2), ops)
        fsshim.VFS.apply(st, op)
        yield (f"after-{op[0]}", f"after raw operation #{i} {op[0]}", fsshim.VFS.files_of(st), ops)
    if fsshim.VFS.files_of(st) != final:
        raise core.HarnessError("replaying the raw operation log does not reproduce the final file system")


def classify(files: dict, old_c, new_c, empty_c) -> str | None:
    """None = fine (loads to old or new). The whole crashed file system is handed to the loader
    (side files such as backups included), as a restarted process would find it."""
    content = files.get(pers.PATH)
    vfs = fsshim.VFS()
    for pth, data in files.items():
        vfs.files[pth] = bytearray(data)
    nodes: dict = {}
    from aiomysensors.persistence import Persistence

    # after the restart the other gateway loads its file first: it was not being saved, so it must be intact
    onodes: dict = {}
    ok, ov = pers.run(Persistence(onodes, OTHER_PATH).load, vfs)
    if ok != "ok" or canon_nodes(onodes) != canon_nodes(other_registry()):
        return "bystander-file-damaged"
    kind, val = pers.run(Persistence(nodes, pers.PATH).load, vfs)
    if kind == "ok":
        c = canon_nodes(nodes)
        if content is None:
            return "file-missing" if c not in (old_c, new_c) else None
        if c == old_c or c == new_c:
            return None
        if c == empty_c:
            return "loads-empty-registry"
        return "loads-other-registry"
    if kind == "raise" and isinstance(val, PersistenceReadError):
        return "unreadable"
    return f"load-raised-{type(val).__name__}"


def job(j):
    oi, ni = j[0], j[1]
    fi = j[2] if len(j) > 2 else None
    loaded = fi if isinstance(fi, str) and not fi.startswith("fault:") else None
    open_fault = fi[6:] if isinstance(fi, str) and fi.startswith("fault:") else None
    tag = fi if isinstance(fi, str) else None
    if isinstance(fi, str):
        fi = None
    old, new = registry(oi), registry(ni)
    first = registry(fi) if fi is not None else None
    old_c, new_c, empty_c = canon_nodes(old), canon_nodes(new), canon_nodes({})
    if loaded == "legacy":
        # the legacy layout has no sleeping flag: the old registry is what load makes of the file
        for n in old.values():
            n.sleeping = False
        old_c = canon_nodes(old)
    viols = []
    n = 0
    shape = None
    classes = set()
    try:
        states = list(crash_states(old, new, first, loaded, open_fault))
    except SaveFailed as err:
        return 1, [(f"C15|save-failed-without-fault", f"old registry #{oi}, new registry #{ni}: the save itself failed on a healthy file system: {err}", {"old": oi, "new": ni, "first": tag or fi})], None, []
    for cls, desc, files, ops in states:
        n += 1
        classes.add(cls)
        shape = [(o[0], len(o[3]) if o[0] == "write" else (o[2] if o[0] == "open" else None)) for o in ops]
        res = classify(files, old_c, new_c, empty_c)
        if res is not None:
            hist = f"file held registry #{fi} when the session started (loaded), then " if fi is not None else ""
            if loaded:
                hist = f"the file ({loaded} layout) was loaded by this session and this is its first save: "
            if open_fault:
                hist = f"the first open for writing fails with {open_fault}: "
            viols.append((f"C15|{cls}|{res}", f"{hist}old registry #{oi}, new registry #{ni}: crash {desc}: the file {res.replace('-', ' ')}", {"old": oi, "new": ni, "first": tag or fi}))
    return n, viols, shape, sorted(classes)


def run(ctx: core.Ctx) -> core.Report:
    regs = [0, 1, 3] if ctx.quick else [0, 1, 2, 3, 4]
    jobs = [(o, n) for o in regs for n in regs]
    # histories: one Persistence object saves three registries in a row (first, old, new)
    jobs += [(o, n, f) for f in regs for o in regs for n in regs if not (f == o == n)]
    # the file was written by an earlier process (native or legacy pymysensors layout), is loaded, and the
    # first save of the session dies
    jobs += [(o, n, lay) for lay in ("native", "legacy") for o in regs for n in regs]
    jobs += [(o, n, "fault:" + e) for e in ("PermissionError", "OSError", "FileExistsError") for o in regs for n in regs if o != 0 or n != 0]
    res = core.pmap(job, jobs, ctx.workers, chunksize=1)
    total = sum(r[0] for r in res)
    viols = [core.Violation(k, w, rep) for r in res for k, w, rep in r[1]]
    cov = {
        "evaluations": total,
        "distinct_nontrivial": total - len(jobs),
        "rule": "for every ordered pair (old, new) of registries, and for every triple (first, old, new) saved in a row by ONE Persistence object, and for every pair with the old registry loaded from a file in native / legacy layout and the dying save the first of the session, and for every pair with the first open-for-writing of the dying save failing with one of three OSError classes (the process may die during whatever the save does about it, or right after the failed save): the earlier saves complete, then save(new) runs on the in-memory file system; crash states = the file system after every prefix of the raw operation log that CPython's real TextIOWrapper/BufferedWriter stack produced, and inside every raw write after every byte (large writes: first/last 64 bytes + every 97th); each state is loaded by the real Persistence.load; non-trivial = any state other than 'before the first operation'",
        "exhaustive": True,
        "bounds": {"registries": regs, "pairs": len(jobs)},
        "raw_operation_shape_of_a_save": res[-1][2],
        "crash_classes": sorted({c for r in res for c in r[3]}),
        "samples": [{"old": jobs[ctx.seed % len(jobs)][0], "new": jobs[ctx.seed % len(jobs)][1], "ops": res[ctx.seed % len(jobs)][2]}],
    }
    return core.Report(
        level="fault_enumeration",
        coverage=cov,
        violations=viols,
        assumptions=[
            "crash model: the process dies; the kernel keeps every completed raw operation and a prefix of the raw write in flight (no power-loss / unsynced-page loss)",
            "raw operations are those of real io.TextIOWrapper/BufferedWriter objects over an in-memory raw file behind aiofiles.threadpool.sync_open",
        ],
    )


def replay(data: dict) -> dict:
    n, viols, shape, _ = job((data["old"], data["new"]) if data.get("first") is None else (data["old"], data["new"], data["first"]))
    return {"violated": bool(viols), "violations": sorted({k for k, _, _ in viols}), "ops": shape}
