"""C05 — active protocol = newest supported one not newer than the reported version. E3 grid + E1 histories."""

from __future__ import annotations

from aiomysensors.exceptions import AIOMySensorsError, UnsupportedMessageError

from .. import bfs, core, refmodel as R
from ..harness import Session, canon_gateway

MOD = __name__

REPORTS = ["1.4.1", "1.5.0", "2.0.0", "2.1.1", "2.2.0", "2.3.2", "junk", ""]
PROBES = [[1, 255, 3, 0, 15, ""], [1, 255, 3, 0, 18, ""], [1, 255, 3, 0, 29, ""], [1, 255, 4, 0, 0, ""], [1, 255, 3, 0, 9, "l"]]


def invariant(gw, bad) -> None:
    pv = gw.protocol_version
    sp = R.spec_protocol(pv)
    active = getattr(gw.protocol, "VERSION", None)
    if pv is not None and sp is None:
        bad("unparseable-version-stored", f"protocol_version = {pv!r} is not a release string, active rules {active}")
    elif active != sp:
        bad("version-and-rules-disagree", f"protocol_version = {pv!r} should select {sp}, active rules are {active}")
    schema = getattr(gw, "_message_schema", None)
    if schema is not None and hasattr(schema, "context"):
        p = schema.context.get("protocol")
        if p is not gw.protocol:
            bad("codec-rules-differ", f"codec uses {getattr(p, 'VERSION', None)}, handlers use {active}")


class Monitor:
    def __init__(self, cfg: dict) -> None:
        self.cfg = cfg
        self.s = Session(cfg.get("version"))
        if cfg.get("node", True):
            self.s.line("1;255;0;0;17;2.0")
        self.eff = R.spec_protocol(cfg.get("version"))  # model: effective rules
        self.reports = cfg.get("reports", REPORTS)
        # another gateway object lives in the same process, under the newest protocol, and handles every
        # message type there is before each of our steps: gateways must not share what they learned
        self.neighbour = None
        if cfg.get("neighbour"):
            self.neighbour = Session("2.2.0", reset_modules=False)
            self.neighbour.line("1;255;0;0;17;2.2")
        self.nontrivial = False
        self.last_desc = None

    def events(self) -> list:
        evs = []
        for r in self.reports:
            evs.append(["reply", r])
        for r in self.reports:
            evs.append(["gwpres", r])
        evs.append(["line", [2, 255, 0, 0, 17, "2.0"]])
        evs.append(["line", [1, 3, 1, 0, 2, "v"]])
        evs.append(["line", [0, 3, 0, 0, 3, "gw child"]])  # a child presented on the gateway node itself
        for p in PROBES:
            evs.append(["probe", p])
        if self.cfg.get("sleepers"):
            # wake announcements of both 2.x kinds, and application commands (internal types of several
            # protocol generations) that are parked while node 1 sleeps and released under whatever rules
            # are in force by then
            evs.append(["probe", [1, 255, 3, 0, 22, "1500"]])
            evs.append(["probe", [1, 255, 3, 0, 32, "500"]])
            # the gateway node itself announces sleep (a smart-sleep node acting as gateway, or a restored flag)
            evs.append(["probe", [0, 255, 3, 0, 22, "1500"]])
            evs.append(["probe", [0, 255, 3, 0, 32, "500"]])
            evs.append(["send", [1, 255, 3, 0, 13, ""]])
            evs.append(["send", [1, 255, 3, 0, 32, "x"]])
            evs.append(["send", [1, 3, 1, 0, 2, "v"]])
        return evs

    def apply(self, ev: list) -> list:
        s, gw = self.s, self.s.gateway
        viols = []

        def bad(k, what):
            viols.append((f"C05|{k}", f"{ev}{' (a second gateway under 2.2 is active in the process)' if self.neighbour else ''}: {what}", None))

        if self.neighbour is not None:
            for t in (15, 18, 22, 29, 32):
                self.neighbour.line(f"1;255;3;0;{t};0")
            self.neighbour.line("1;255;4;0;0;x")

        self.nontrivial = False
        if ev[0] in ("reply", "gwpres"):
            r = ev[1]
            line = f"0;255;3;0;2;{r}" if ev[0] == "reply" else f"0;255;0;0;18;{r}"
            out = s.line(line)
            self.last_desc = out.describe()
            self.nontrivial = True
            sp = R.spec_protocol(r)
            if sp is not None:
                # a well-formed release string: must be accepted and select spec(r)
                if out.kind != "yield":
                    bad("report-rejected", f"well-formed version report {r!r} gave {out.describe()}")
                else:
                    self.eff = sp
                    active = getattr(gw.protocol, "VERSION", None)
                    if active != sp:
                        bad(f"wrong-protocol-selected|{r}", f"report {r!r} must select {sp}, active rules are {active}")
            else:
                # junk: rejected or ignored; either way the invariant below must hold
                if out.kind == "yield" and gw.protocol_version is not None:
                    sp2 = R.spec_protocol(gw.protocol_version)
                    if sp2 is not None:
                        self.eff = sp2
        elif ev[0] == "send":
            from aiomysensors.model.message import Message

            out = s.send(Message(*ev[1]))
            self.last_desc = out.describe()
        elif ev[0] == "probe":
            f = tuple(ev[1])
            out = s.line(R.enc(*f).rstrip("\n"))
            self.last_desc = out.describe()
            exists = R.type_exists(self.eff, f[2], f[4])
            unsupported = out.kind == "raise" and isinstance(out.exc, UnsupportedMessageError)
            if exists and unsupported:
                bad(f"existing-type-refused|{f[2]}/{f[4]}", f"type {f[4]} exists in {self.eff} but was refused as unsupported")
            if not exists and not unsupported:
                bad(f"missing-type-accepted|{f[2]}/{f[4]}", f"type {f[4]} does not exist in {self.eff} but gave {out.describe()}")
        else:
            out = s.line(R.enc(*ev[1]).rstrip("\n"))
            self.last_desc = out.describe()
        invariant(gw, bad)
        active = getattr(gw.protocol, "VERSION", None)
        if active != self.eff and not viols:
            bad("rules-changed-without-report", f"active rules {active}, expected {self.eff}")
        return viols

    def key(self):
        return (canon_gateway(self.s.gateway), self.eff, canon_gateway(self.neighbour.gateway) if self.neighbour else None)


def make(cfg):
    return Monitor(cfg)


# -- (a) selection grid, (c) type gate: exhaustive single steps -----------------


def version_grid(quick: bool) -> list:
    majors = [0, 1, 2, 3, 10]
    minors = [0, 1, 2, 3, 4, 5, 6, 9, 10, 15]
    patches = [None, 0, 1, 2, 10]
    builds = [None, 0, 1]
    out = []
    for ma in majors:
        for mi in minors:
            for pa in patches:
                for bu in builds:
                    if pa is None and bu is not None:
                        continue
                    s = f"{ma}.{mi}"
                    if pa is not None:
                        s += f".{pa}"
                    if bu is not None:
                        s += f".{bu}"
                    out.append(s)
    return out


BEHAVE_SCRIPT = ["1;255;0;0;17;2.0", "1;3;0;0;3;", "1;255;3;0;22;1500", ("send", (1, 3, 1, 0, 2, "a")), "1;255;3;0;32;500", ("send", (1, 3, 1, 0, 2, "b")),
                 "1;255;3;0;22;1600", "0;255;3;0;14;ready", "1;255;3;0;33;1", "2;3;1;0;2;x", "1;255;4;0;0;fw"]


def behaviour(version: str) -> list:
    """What a gateway whose version was set to `version` does with a fixed script (wake announcements of both
    kinds, sends to the node in between, gateway-ready, an unknown node): outcomes, writes and sleeping flags."""
    from aiomysensors.model.message import Message

    s = Session(version, reset_modules=False)
    out = []
    for st in BEHAVE_SCRIPT:
        o = s.send(Message(*st[1])) if isinstance(st, tuple) else s.line(st)
        d = o.describe()
        d.pop("exc_str", None)
        out.append(d)
    out.append({n: node.sleeping for n, node in sorted(s.gateway.nodes.items())})
    return out


def grid_case(job) -> list:
    kind, arg = job
    viols = []
    if kind == "select":
        v = arg
        sp = R.spec_protocol(v)
        for via in ("setter", "reply", "gwpres"):
            s = Session()
            try:
                if via == "setter":
                    s.gateway.protocol_version = v
                    ok = True
                else:
                    out = s.line(f"0;255;3;0;2;{v}" if via == "reply" else f"0;255;0;0;18;{v}")
                    ok = out.kind == "yield"
                    if not ok:
                        viols.append((f"C05|report-rejected", f"{via} {v!r}: {out.describe()}", {"kind": kind, "arg": arg}))
                        continue
            except Exception as exc:  # noqa: BLE001
                viols.append((f"C05|setter-raised", f"setter {v!r}: {type(exc).__name__}: {exc}", {"kind": kind, "arg": arg}))
                continue
            active = getattr(s.gateway.protocol, "VERSION", None)
            if active != sp:
                mm = ".".join(v.split(".")[:2])
                viols.append((f"C05|wrong-protocol-selected|{mm}|parts={len(v.split('.'))}", f"{via} {v!r} must select {sp}, got {active}", {"kind": kind, "arg": arg}))
            if R.spec_protocol(s.gateway.protocol_version) != sp:
                viols.append((f"C05|stored-version-disagrees", f"{via} {v!r}: stored {s.gateway.protocol_version!r}", {"kind": kind, "arg": arg}))
        # "the rules in force are those of <sp>": a gateway told `v` behaves exactly like one told `sp` (wakes, buffering, replies)
        try:
            got, want = behaviour(v), behaviour(sp)
        except Exception as exc:  # noqa: BLE001
            got, want = repr(exc), None
        if got != want:
            i = next((i for i, (a, b) in enumerate(zip(got, want)) if a != b), None) if isinstance(got, list) and isinstance(want, list) else None
            mm = ".".join(v.split(".")[:2])
            viols.append((f"C05|behaves-unlike-selected-protocol|{mm}|parts={len(v.split('.'))}", f"a gateway whose version is {v!r} (rules {sp}) does not behave like one under {sp!r}: step #{i} {BEHAVE_SCRIPT[i] if i is not None and i < len(BEHAVE_SCRIPT) else 'sleeping flags'}: {got[i] if i is not None else got} vs {want[i] if i is not None else want}", {"kind": kind, "arg": arg}))
    else:
        version, cmd, typ = arg
        s = Session(version)
        s.line(f"1;255;0;0;17;{version}")
        payload = version if (cmd == 3 and typ == 2) else "0"
        out = s.line(f"1;255;{cmd};0;{typ};{payload}")
        exists = R.type_exists(version, cmd, typ)
        unsupported = out.kind == "raise" and isinstance(out.exc, UnsupportedMessageError)
        if exists and unsupported:
            viols.append((f"C05|existing-type-refused|{cmd}/{typ}|{version}", f"[{version}] type {typ} of command {cmd} exists but was refused", {"kind": kind, "arg": arg}))
        if not exists and not unsupported:
            viols.append((f"C05|missing-type-accepted|{cmd}/{typ}|{version}", f"[{version}] type {typ} of command {cmd} does not exist but gave {out.describe()}", {"kind": kind, "arg": arg}))
    return viols


def entry_case(job) -> list:
    """A gateway with a persistence file enters its context: while no version has been *reported* the rules
    in force are 1.4, whatever the file says about the gateway node; reports afterwards behave as always."""
    from aiomysensors.gateway import Config
    from aiomysensors.model.node import Child, Node

    from .. import pers

    stored, reports = job[0], job[1]
    via = job[2] if len(job) > 2 else "reply"
    leave = job[3] if len(job) > 3 else None
    viols = []

    def bad(k, what):
        viols.append((f"C05|entry-{k}", f"persistence file with gateway node version {stored!r}, then reports {reports} (by {'version reply' if via == 'reply' else 'gateway presentation'}): {what}", {"entry": [stored, reports, via, leave]}))

    nodes = {1: Node(1, 17, "2.0", children={3: Child(3, 3)})}
    if stored is not None:
        nodes[0] = Node(0, 18, stored)
    kind, val, vfs = pers.save_nodes(nodes)
    assert kind == "ok", val
    s = Session(None, Config(persistence_file=pers.PATH))
    gw = s.gateway
    kind, val = pers.run(gw.__aenter__, vfs)
    if kind != "ok":
        bad("enter-failed", f"entering the context gave {kind} {val!r}")
        return viols
    try:
        eff = "1.4"
        steps = [None] + list(reports)
        for r in steps:
            if r is not None:
                out = s.line(f"0;255;3;0;2;{r}" if via == "reply" else f"0;255;0;0;18;{r}")
                sp = R.spec_protocol(r)
                if sp is not None and out.kind == "yield":
                    eff = sp
                elif sp is not None:
                    bad("report-rejected", f"report {r!r} gave {out.describe()}")
            invariant(gw, lambda k, w: bad(k, f"after {'entry' if r is None else 'report ' + repr(r)}: {w}"))
            active = getattr(gw.protocol, "VERSION", None)
            if active != eff:
                bad("wrong-rules", f"after {'entry' if r is None else 'report ' + repr(r)} the active rules are {active}, expected {eff}")
            for t in (15, 22, 29):
                out = s.line(f"1;255;3;0;{t};0")
                exists = R.type_exists(eff, 3, t)
                unsupported = out.kind == "raise" and isinstance(out.exc, UnsupportedMessageError)
                if exists == unsupported:
                    bad(f"type-gate|3/{t}", f"after {'entry' if r is None else 'report ' + repr(r)} type {t} ({'exists' if exists else 'does not exist'} in {eff}) gave {out.describe()}")
    finally:
        if leave is None:
            pers.run(lambda: gw.__aexit__(None, None, None), vfs)
    if leave is not None:
        # the context is left through an exception; the same gateway object is used again afterwards
        from aiomysensors.exceptions import TransportError, TransportFailedError, TransportReadError

        exc = {"failed": TransportFailedError("lost"), "transport": TransportError("t"), "read": TransportReadError("r"), "runtime": RuntimeError("app"), "none": None}[leave]
        pers.run(lambda: gw.__aexit__(type(exc) if exc else None, exc, None), vfs)
        s._agen = None
        invariant(gw, lambda k, w: bad(k, f"after leaving the context through {leave}: {w}"))
        active = getattr(gw.protocol, "VERSION", None)
        if active != eff:
            bad("wrong-rules", f"after leaving the context through {leave} the active rules are {active}, expected {eff}")
        kind, val = pers.run(gw.__aenter__, vfs)
        if kind == "ok":
            for t in (15, 22, 29):
                out = s.line(f"1;255;3;0;{t};0")
                exists = R.type_exists(eff, 3, t)
                unsupported = out.kind == "raise" and isinstance(out.exc, UnsupportedMessageError)
                if exists == unsupported:
                    bad(f"type-gate|3/{t}", f"after leaving the context through {leave} and entering again, type {t} ({'exists' if exists else 'does not exist'} in {eff}) gave {out.describe()}")
                if out.writes and any(w.startswith("0;255;3;0;2;") for w in out.writes) and gw.protocol_version is not None and eff != "1.4":
                    bad("version-asked-again", f"after leaving through {leave} and entering again the library asks for the version although {eff} was reported")
            invariant(gw, lambda k, w: bad(k, f"after re-entering (left through {leave}): {w}"))
            pers.run(lambda: gw.__aexit__(None, None, None), vfs)
    return viols


def run(ctx: core.Ctx) -> core.Report:
    ejobs = [(st, rp, via) for via in ("reply", "gwpres") for st in (None, "1.4", "1.5.0", "2.0.0", "2.2.0", "2.3.1", "junk", "") for rp in ([], ["2.1.1"], ["junk"], ["2.2.0", "junk"], ["1.5.0", "2.0.0"], [st], [st, "2.1.1", st]) if None not in rp and not (via == "gwpres" and not rp)]
    ejobs += [(st, rp, "reply", lv) for st in (None, "2.2.0") for rp in ([], ["2.2.0"], ["1.5.0"], ["2.1.1", "junk"]) for lv in ("failed", "transport", "read", "runtime", "none")]
    eres = core.pmap(entry_case, ejobs, ctx.workers)
    jobs = [("select", v) for v in version_grid(ctx.quick)]
    for v in R.VERSIONS:
        for t in range(-1, 41):
            jobs.append(("gate", (v, 3, t)))
        for t in range(-1, 9):
            jobs.append(("gate", (v, 4, t)))
    gres = core.pmap(grid_case, jobs, ctx.workers)
    viols = [core.Violation(k, w, {"grid": rep}) for r in gres for k, w, rep in r]
    viols += [core.Violation(k, w, rep) for r in eres for k, w, rep in r]
    depth = 4 if ctx.quick else 5
    cfgs = [{"version": None}, {"version": "2.1"}] if ctx.quick else [{"version": None}, {"version": "1.5"}, {"version": "2.0"}, {"version": "2.2"}]
    cfgs += [{"version": None, "neighbour": True, "reports": ["1.5.0", "2.0.0", "junk"]}]
    res = bfs.search(ctx, MOD, cfgs, max_depth=depth)
    res2 = bfs.search(ctx, MOD, [{"version": v, "reports": ["2.0.0", "2.1.1", "2.2.0"], "sleepers": True} for v in ((None,) if ctx.quick else (None, "2.0", "2.2"))], max_depth=5 if ctx.quick else 6)
    for k in ("states", "transitions", "nontrivial_transitions"):
        res[k] += res2[k]
    for k in ("per_cfg", "samples", "violations"):
        res[k] += res2[k]
    cov = {
        "states": res["states"],
        "transitions": res["transitions"] + len(jobs),
        "traces_validated_against_impl": res["transitions"] + len(jobs),
        "exhaustive": False,
        "grid_cases": len(jobs),
        "context_entry_cases": len(ejobs),
        "distinct_nontrivial_transitions": res["nontrivial_transitions"],
        "rule": "(a) every version string of the grid through the setter, a version reply and a gateway presentation, and an 11-step behaviour script (wakes of both kinds, sends, gateway-ready) compared with the same script under the selected protocol's own version string; (c) every internal type -1..40 and stream type -1..8 per version; (b) all histories of version reports mixed with traffic and type probes to the stated depth; (b') the same with wake announcements and application commands parked for a sleeping node across version changes; (d) gateways entering their context over persistence files with 8 stored gateway-node versions x 7 report sequences (the stored string itself included) x reported by version reply / by gateway presentation, and contexts left through a transport-failed / transport / read / application error and entered again",
        "bounds": {"depth": depth, "version_strings": len(version_grid(ctx.quick)), "per_cfg": res["per_cfg"]},
        "samples": ctx.pick(res["samples"], 2) + [{"grid": jobs[7]}, {"grid": jobs[-3]}],
    }
    return core.Report(
        level="model_checking",
        coverage=cov,
        violations=viols + res["violations"],
        assumptions=[
            "type tables per version taken from the MySensors serial API (internal 0-14/17/28/28/33, stream 0-5)",
            "a junk/empty report may be rejected or ignored; only the agreement invariant is required afterwards",
            "the codec's protocol is read through the private schema context when present (skipped otherwise)",
        ],
    )


def replay(data: dict) -> dict:
    if "entry" in data:
        v = entry_case(tuple(data["entry"]))
        return {"violated": bool(v), "violations": [{"key": k, "what": w} for k, w, _ in v]}
    if "grid" in data:
        g = data["grid"]
        arg = g["arg"]
        v = grid_case((g["kind"], arg if g["kind"] == "select" else tuple(arg)))
        return {"violated": bool(v), "violations": [{"key": k, "what": w} for k, w, _ in v]}
    return bfs.replay_history(MOD, data)
