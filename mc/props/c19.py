"""C19 — a newer protocol handles the older protocol's message types identically. E1, differential."""

from __future__ import annotations

from aiomysensors.model.message import Message

from .. import bfs, core, refmodel as R
from ..harness import Session, canon_gateway, canon_nodes, registry_view

MOD = __name__

SAME_MAJOR = [["1.4", "1.5"], ["2.0", "2.1"], ["2.0", "2.2"], ["2.1", "2.2"]]
CROSS_MAJOR = [["1.4", "2.0"], ["1.5", "2.0"], ["1.5", "2.2"], ["1.4", "2.2"]]


def straddles_22(pair) -> bool:
    return pair[1] == "2.2" and pair[0] != "2.2"


def history_alphabet(pair, cross: bool) -> list:
    old = pair[0]
    evs = []
    for n in (1, 2):
        evs.append(["line", [n, 255, 0, 0, 17, "2.0"]])
        evs.append(["line", [n, 255, 3, 0, 0, "55"]])
        evs.append(["line", [n, 255, 3, 0, 11, "nm"]])
        evs.append(["line", [n, 3, 0, 0, 6, "d"]])
        evs.append(["line", [n, 3, 1, 0, 0, "a"]])
        evs.append(["line", [n, 3, 1, 0, 2, "b"]])
        evs.append(["line", [n, 3, 2, 0, 0, ""]])
        evs.append(["send", [n, 3, 1, 0, 2, "s"], None])
        evs.append(["send", [n, 3, 1, 0, 2, "t"], None])
    evs.append(["line", [1, 4, 1, 0, 0, "a"]])  # unknown child unless presented
    evs.append(["line", [1, 255, 3, 0, 6, ""]])
    evs.append(["line", [1, 255, 3, 0, 1, ""]])
    evs.append(["line", [255, 255, 3, 0, 3, ""]])
    evs.append(["line", [0, 255, 3, 0, 9, "log"]])
    evs.append(["line", [1, 255, 4, 0, 0, "fw"]])
    evs.append(["reboot", 1])
    evs.append(["send", [1, 255, 3, 0, 13, ""], False])
    if R.is2x(old):
        evs.append(["send", [1, 255, 3, 0, 18, ""], None])  # a heartbeat request through the normal (buffered) path
        evs.append(["line", [9, 255, 3, 0, 22, "7"]])  # a heartbeat response from a node nobody knows (the exception concerns known nodes)
    if not cross:
        evs.append(["line", [0, 255, 3, 0, 14, "ready"]])
        evs.append(["line", [9, 3, 1, 0, 0, "a"]])  # unknown node
    if R.is2x(old):
        evs.append(["line", [1, 255, 3, 0, 21, "0"]])
        if not straddles_22(pair):
            evs.append(["line", [1, 255, 3, 0, 22, "7"]])
            evs.append(["line", [2, 255, 3, 0, 22, "7"]])
    return evs


def heartbeat_alphabet(pair) -> list:
    """Histories WITH heartbeat responses of known nodes for the pairs that straddle 2.2. The stated exception
    (sleeping mark, release of parked commands) makes default sends to such a node differ legitimately, so
    this alphabet has no buffered sends; everything else must still agree, with the sleeping flag masked."""
    evs = [ev for ev in history_alphabet(pair, False) if not (ev[0] == "send" and ev[2] is None)]
    evs.append(["line", [1, 255, 3, 0, 22, "7"]])
    evs.append(["line", [2, 255, 3, 0, 22, "8"]])
    evs.append(["send", [1, 3, 1, 0, 2, "s"], False])
    return evs


def single_alphabet(pair, cross: bool) -> list:
    old = pair[0]
    evs = []
    for t in range(0, R.INTERNAL_MAX[old] + 1):
        if t == R.I_VERSION:
            continue  # a version report changes the pair under test (C05)
        if cross and t == R.I_GATEWAY_READY:
            continue
        for p in ("", "5", "x"):
            evs.append(["line", [1, 255, 3, 0, t, p]])
            if not cross:
                evs.append(["line", [9, 255, 3, 0, t, p]])
    for t in range(0, 6):
        evs.append(["line", [1, 255, 4, 0, t, "x"]])
        if not cross:
            evs.append(["line", [9, 255, 4, 0, t, "x"]])
    for t in (0, 1, 25, 39):
        evs.append(["line", [1, 5, 0, 0, t, "d"]])
        evs.append(["line", [1, 3, 1, 0, t, "v"]])
        evs.append(["line", [1, 3, 2, 0, t, ""]])
        evs.append(["send", [1, 3, 1, 0, t, "s"], None])
        evs.append(["send", [1, 3, 1, 0, t, "s"], False])
        if not cross:
            evs.append(["line", [1, 4, 1, 0, t, "v"]])
            evs.append(["line", [1, 4, 2, 0, t, ""]])
    for t in range(0, R.INTERNAL_MAX[old] + 1):
        evs.append(["send", [1, 255, 3, 0, t, "p"], None])
        if t in (1, 6, 13, 18, 24):
            evs.append(["send", [1, 255, 3, 0, t, "p"], False])
    for t in range(0, 6):
        evs.append(["send", [1, 255, 4, 0, t, "p"], None])
    evs.append(["line", [1, 255, 0, 0, 17, "2.0"]])
    evs.append(["line", [1, 255, 0, 0, 18, "1.4"]])
    return evs


def outcome_sig(out) -> tuple:
    if out.kind == "yield":
        return ("yield", out.fields)
    if out.kind == "raise":
        return ("raise", type(out.exc).__name__, getattr(out.exc, "node_id", None), getattr(out.exc, "child_id", None))
    return (out.kind,)


class Monitor:
    def __init__(self, cfg: dict) -> None:
        self.cfg = cfg
        self.pair = cfg["pair"]
        self.cross = cfg["cross"]
        self.a = Session(self.pair[0])
        self.b = Session(self.pair[1])
        self.model = R.RegistryModel()
        self.parked_a: list[str] = []
        self.nontrivial = False
        self.last_desc = None
        self._alpha = single_alphabet(self.pair, self.cross) if cfg["mode"] == "single" else history_alphabet(self.pair, self.cross)
        self.mask_sleeping = cfg["mode"] == "hb"
        if cfg["mode"] == "hb":
            self._alpha = heartbeat_alphabet(self.pair)
        for ev in cfg.get("prefix", []):
            v = self.apply(ev)
            assert not v, v

    def events(self) -> list:
        if not self.cross:
            return self._alpha
        # across major lines only histories that never reference an unknown node/child
        evs = []
        for ev in self._alpha:
            if ev[0] == "line":
                f = tuple(ev[1])
                if not (f[2] == 3 and f[4] == R.I_ID_REQUEST) and self.model.expect(self.pair[1], f)[0] != "ok":
                    continue
                if f[2] == 3 and f[4] in (R.I_DISCOVER_RESPONSE, R.I_HEARTBEAT_RESPONSE, R.I_PRE_SLEEP_NOTIFICATION) and f[0] not in self.model.nodes:
                    continue
            evs.append(ev)
        return evs

    def apply(self, ev: list) -> list:
        viols = []
        outs = []
        for s in (self.a, self.b):
            if ev[0] == "line":
                outs.append(s.line(R.enc(*ev[1]).rstrip("\n")))
            elif ev[0] == "send":
                outs.append(s.send(Message(*ev[1]), ev[2]))
            elif ev[0] == "reboot":
                node = s.gateway.nodes.get(ev[1])
                if node is not None:
                    node.reboot = True
                outs.append(None)
            elif ev[0] == "sleepflag":
                # as restored from a persistence file written by an earlier session
                node = s.gateway.nodes.get(ev[1])
                if node is not None:
                    node.sleeping = True
                outs.append(None)
        if ev[0] in ("reboot", "sleepflag"):
            self.last_desc = {ev[0]: ev[1]}
            return viols
        oa, ob = outs
        self.last_desc = {self.pair[0]: oa.describe(), self.pair[1]: ob.describe()}
        tag = f"{ev[0]}|{ev[1][2]}/{ev[1][4] if ev[1][2] in (3, 4) else '*'}|{self.pair[0]}-{self.pair[1]}"

        def bad(k, what):
            viols.append((f"C19|{k}|{tag}", f"{ev} under {self.pair}: {what}", None))

        # the one stated exception: a heartbeat response marks the node sleeping and releases its parked
        # commands in 2.0/2.1 but not in 2.2; everything else about its handling must still agree
        hb_exception = ev[0] == "line" and ev[1][2] == 3 and ev[1][4] == R.I_HEARTBEAT_RESPONSE and straddles_22(self.pair)
        if outcome_sig(oa) != outcome_sig(ob):
            bad("outcome-differs", f"{self.pair[0]}: {oa.describe()} vs {self.pair[1]}: {ob.describe()}")
        wa, wb = sorted(oa.writes), sorted(ob.writes)
        if hb_exception:
            parked = sorted(self.parked_a)
            wa = sorted(w for w in oa.writes if w not in parked or parked.remove(w))
        if wa != wb:
            bad("writes-differ", f"{self.pair[0]} wrote {oa.writes}, {self.pair[1]} wrote {ob.writes}")
        if hb_exception or self.mask_sleeping:
            ra, rb = registry_view(self.a.gateway.nodes), registry_view(self.b.gateway.nodes)
            for r in (ra, rb):
                for nd in r.values():
                    nd.pop("sleeping", None)
            if ra != rb:
                bad("registry-differs", f"registries differ (sleeping flag ignored) after the step: {ra} vs {rb}")
        elif canon_nodes(self.a.gateway.nodes) != canon_nodes(self.b.gateway.nodes):
            bad("registry-differs", f"registries differ after the step: {self.a.gateway.nodes!r} vs {self.b.gateway.nodes!r}")
        # lines parked in the older gateway (for the heartbeat exception)
        if ev[0] == "send" and oa.kind == "return" and not oa.writes:
            self.parked_a.append(R.enc(*ev[1]))
        for w in oa.writes:
            if w in self.parked_a:
                self.parked_a.remove(w)
        self.nontrivial = bool(oa.writes) or oa.kind == "raise"
        if ev[0] == "line" and ob.kind == "yield":
            f = tuple(ev[1])
            if f[2] == 3 and f[4] == R.I_ID_REQUEST:
                for w in ob.writes:
                    g = w.rstrip("\n").split(";", 5)
                    if g[4] == "4" and R.PLAIN_INT.match(g[5]):
                        self.model.placeholder(int(g[5]))
            elif self.model.expect(self.pair[1], f)[0] == "ok":
                self.model.apply(self.pair[1], f)
        return viols

    def key(self):
        return (canon_gateway(self.a.gateway), canon_gateway(self.b.gateway))


def make(cfg):
    return Monitor(cfg)


class TimeoutScenario:
    """One gateway under one version: a few received lines whose reactions are transport writes the explorer completes,
    and a wait for the next message that may time out (is cancelled) while a write is in flight."""

    horizon = 3000

    def __init__(self, cfg: dict, loop) -> None:
        import asyncio

        from aiomysensors.gateway import Gateway

        from ..harness import AsyncScriptTransport, drive

        self.asyncio = asyncio
        self.cfg = cfg
        self.loop = loop
        t = self.t = AsyncScriptTransport(loop)
        gw = self.gw = Gateway(t)
        gw.protocol_version = cfg["version"]
        agen = gw.listen()
        for line in ("1;255;0;0;17;2.0", "1;3;0;0;3;", "1;3;1;0;2;v"):
            t.lines.append(line)
            drive(agen.__anext__())
        self.base = len(t.log)
        t.sync = False
        self.script = list(cfg["lines"])
        self.pos = 0
        self.budget = 1
        self.timed_out = False
        self.step_task = None
        self.results: list = []
        self.nontrivial = False
        self.listener = loop.create_task(self._listen())

    async def _listen(self):
        from aiomysensors.exceptions import AIOMySensorsError

        agen = self.gw.listen()
        try:
            for _ in self.script:
                self.step_task = self.loop.create_task(agen.__anext__())
                try:
                    m = await self.step_task
                    self.results.append(("yield", m.node_id, m.message_type))
                except AIOMySensorsError as exc:
                    self.results.append(("raise", type(exc).__name__))
                    await agen.aclose()
                    agen = self.gw.listen()
                except self.asyncio.CancelledError:
                    if not self.timed_out:
                        raise
                    self.timed_out = False
                    self.results.append(("timeout",))
                    await agen.aclose()
                    agen = self.gw.listen()
        finally:
            self.step_task = None
            await agen.aclose()

    def enabled(self) -> list:
        self.t.pending_writes[:] = [e for e in self.t.pending_writes if not e[0].done()]
        evs = []
        if self.pos < len(self.script) and self.t.pending_read is not None:
            evs.append("line")
        for i in range(len(self.t.pending_writes)):
            evs.append(f"write:{i}")
        if self.budget > 0 and self.t.pending_writes and self.step_task is not None and not self.step_task.done():
            evs.append("timeout")
        return evs

    def fire(self, label: str) -> None:
        if label == "line":
            self.t.deliver(self.script[self.pos])
            self.pos += 1
        elif label == "timeout":
            self.budget -= 1
            self.nontrivial = True
            self.timed_out = True
            self.step_task.cancel()
        else:
            self.t.complete_write(int(label.split(":")[1]))

    def finished(self) -> bool:
        return self.pos >= len(self.script) and self.listener.done() and self.loop.ready_count() == 0

    def verdict(self, hang: bool) -> list:
        return [("C19|timeout-hang", f"{self.cfg}: no enabled event while the listener is unfinished", None)] if hang else []

    def observation(self):
        return {"results": [list(r) for r in self.results], "issued": list(self.t.log[self.base:]), "written": self.t.written()[self.base:] if False else [l for l in self.t.written()],
                "registry": registry_view(self.gw.nodes)}


def make_scenario(cfg, loop):
    return TimeoutScenario(cfg, loop)


def timeout_diff_job(job):
    """The same scenario, schedule by schedule, under the older and the newer version of a pair: every schedule (which
    write completes when, where the timeout lands) must produce the same results, writes and registry."""
    from .. import explore

    pair, lines = job
    outcomes = []
    for v in pair:
        cfg = {"version": v, "lines": lines}
        seen = {}
        stack = [[]]
        while stack:
            p = stack.pop()
            x = explore.run_once(MOD, cfg, p)
            seen[tuple(x.trace)] = x.obs
            stack.extend(explore.children(x, len(p), 1))
        outcomes.append(seen)
    viols = []
    a, b = outcomes
    for trace in sorted(set(a) | set(b)):
        if trace not in a or trace not in b:
            viols.append((f"C19|timeout-schedules-differ|{pair[0]}-{pair[1]}", f"lines {lines}: the schedule {list(trace)} exists under {pair[0] if trace in a else pair[1]} only (the other version issues other writes)", {"timeout_diff": [pair, lines]}))
            break
        if a[trace] != b[trace]:
            d = next(k for k in a[trace] if a[trace][k] != b[trace][k])
            viols.append((f"C19|timeout-{d}-differ|{pair[0]}-{pair[1]}", f"lines {lines}, schedule {list(trace)} (the wait for the next message times out while a write is in flight): {d} under {pair[0]}: {a[trace][d]}; under {pair[1]}: {b[trace][d]}", {"timeout_diff": [pair, lines]}))
            break
    return len(a) + len(b), viols


def prefixes(pair, cross) -> list:
    n1 = ["line", [1, 255, 0, 0, 17, "2.0"]]
    c3 = ["line", [1, 3, 0, 0, 6, "d"]]
    c5 = ["line", [1, 5, 0, 0, 6, "d"]]
    s3 = ["line", [1, 3, 1, 0, 0, "a"]]
    out = [[n1, c3], [n1, c3, s3], [n1, c3, c5, s3, ["reboot", 1]]]
    if not cross:
        out = [[], [n1]] + out
    if R.is2x(pair[0]) and not straddles_22(pair):
        hb = ["line", [1, 255, 3, 0, 22, "0"]]
        out.append([n1, c3, hb])
        out.append([n1, c3, hb, ["send", [1, 3, 1, 0, 0, "s"], None]])
    return out


def type_product_job(job):
    """Every child type x value type of the older table: present the child, set, req; old vs new must agree."""
    pair, ctypes = job
    viols = []
    n = 0
    for ct in ctypes:
        for vt in range(0, R.V_MAX[pair[0]] + 1):
            n += 1
            mon = Monitor({"pair": pair, "cross": False, "mode": "hist"})
            hist = [["line", [1, 255, 0, 0, 17, "2.0"]], ["line", [1, 5, 0, 0, ct, "d" if (ct + vt) % 2 else ""]], ["line", [1, 5, 1, 0, vt, "v"]], ["line", [1, 5, 2, 0, vt, ""]], ["send", [1, 5, 1, 0, vt, "s"], None]]
            for i, ev in enumerate(hist):
                v = mon.apply(ev)
                for k, w, _x in v:
                    viols.append((k.replace("|line|", "|typeproduct|").replace("|send|", "|typeproduct|"), f"child type {ct} value type {vt}: {w}", {"cfg": {"pair": pair, "cross": False, "mode": "hist"}, "history": hist[: i + 1], "extra": None}))
                if v:
                    break
    return n, viols


def run(ctx: core.Ctx) -> core.Report:
    depth = 4 if ctx.quick else 6
    cfgs_h = [{"pair": p, "cross": False, "mode": "hist"} for p in SAME_MAJOR]
    cfgs_h += [{"pair": p, "cross": True, "mode": "hist", "prefix": [["line", [1, 255, 0, 0, 17, "2.0"]], ["line", [1, 3, 0, 0, 6, "d"]]]} for p in CROSS_MAJOR]
    # deeper: start from a sleeping node with a parked command (2.0 vs 2.1 share the heartbeat wake)
    cfgs_h.append({"pair": ["2.0", "2.1"], "cross": False, "mode": "hist",
                   "prefix": [["line", [1, 255, 0, 0, 17, "2.0"]], ["line", [1, 3, 0, 0, 6, "d"]], ["line", [1, 255, 3, 0, 22, "0"]], ["send", [1, 3, 1, 0, 2, "s"], None]]})
    res = bfs.search(ctx, MOD, cfgs_h, max_depth=depth)
    # heartbeat responses of known nodes inside histories, for the pairs the stated exception applies to
    n1, c3 = ["line", [1, 255, 0, 0, 17, "2.0"]], ["line", [1, 3, 0, 0, 6, "d"]]
    cfgs_hb = [{"pair": p, "cross": False, "mode": "hb", "prefix": [n1, c3]} for p in SAME_MAJOR if straddles_22(p)]
    # a node restored from a persistence file as sleeping (the only way a 1.x gateway has one), then traffic
    cfgs_sl = [{"pair": p, "cross": c, "mode": "hist", "prefix": [n1, c3, ["sleepflag", 1]]} for p, c in [(p, False) for p in SAME_MAJOR if not straddles_22(p)] + [(p, True) for p in CROSS_MAJOR]]
    res2 = bfs.search(ctx, MOD, cfgs_hb + cfgs_sl, max_depth=3 if ctx.quick else 5)
    for k in ("states", "transitions", "nontrivial_transitions"):
        res[k] += res2[k]
    for k in ("per_cfg", "samples", "violations"):
        res[k] += res2[k]
    cfgs_s = []
    for p in SAME_MAJOR:
        for pre in prefixes(p, False):
            cfgs_s.append({"pair": p, "cross": False, "mode": "single", "prefix": pre})
    for p in CROSS_MAJOR:
        for pre in prefixes(p, True):
            cfgs_s.append({"pair": p, "cross": True, "mode": "single", "prefix": pre})
    sres = bfs.search_many(ctx, MOD, cfgs_s, 1)
    tjobs = []
    for p in SAME_MAJOR + CROSS_MAJOR:
        cts = list(range(0, R.S_MAX[p[0]] + 1))
        for i in range(0, len(cts), 5):
            tjobs.append((p, cts[i : i + 5]))
    djobs = [(p, ls) for p in SAME_MAJOR + CROSS_MAJOR for ls in (["255;255;3;0;3;", "255;7;3;0;3;"], ["1;255;3;0;6;", "1;3;2;0;2;", "255;255;3;0;3;"])]
    dres = core.pmap(timeout_diff_job, djobs, ctx.workers, chunksize=1)
    tres = core.pmap(type_product_job, tjobs, ctx.workers, chunksize=1)
    tviols = [core.Violation(k, w, rep) for r in tres + dres for k, w, rep in r[1]]
    tcount = sum(r[0] for r in tres)
    cov = {
        "states": res["states"] + sres["states"],
        "transitions": res["transitions"] + sres["transitions"] + 5 * tcount,
        "traces_validated_against_impl": res["transitions"] + sres["transitions"] + 5 * tcount,
        "type_product_cases": tcount,
        "exhaustive": False,
        "distinct_nontrivial_transitions": res["nontrivial_transitions"] + sres["nontrivial_transitions"],
        "rule": "product of two real gateways (old, new) fed the same events; (a) every internal/stream type of the old table x payloads in base states (depth 1; the heartbeat response across 2.1->2.2 is compared with the sleeping flag and the release of parked commands masked), (b) all histories to the stated depth, incl. histories with heartbeat responses across the 2.2 boundary (sleeping flag masked, no buffered sends) and histories starting from a node restored as sleeping, (b'') two scenarios per pair explored schedule by schedule (E2: suspended writes, one timeout of the wait for the next message) under both versions and compared per schedule, (c) every child type x value type of the older table (present, set, req, send); non-trivial = the step wrote something or raised",
        "bounds": {"depth": depth, "pairs": SAME_MAJOR + CROSS_MAJOR, "single_step_cfgs": len(cfgs_s), "per_cfg": res["per_cfg"]},
        "samples": ctx.pick(res["samples"], 3),
    }
    return core.Report(
        level="model_checking",
        coverage=cov,
        violations=res["violations"] + sres["violations"] + tviols,
        assumptions=[
            "heartbeat response across 2.0/2.1 -> 2.2: in histories only in a dedicated alphabet without buffered sends, the sleeping flag masked; in single steps compared modulo the stated exception (sleeping flag, release of parked commands)",
            "across major lines histories are restricted to known nodes/children and no gateway-ready",
            "version reports are excluded (they would change the pair under test; C05)",
            "writes compared as multisets per step",
        ],
    )


def replay(data: dict) -> dict:
    if "timeout_diff" in data:
        _, v = timeout_diff_job((data["timeout_diff"][0], data["timeout_diff"][1]))
        return {"violated": bool(v), "violations": [{"key": k, "what": w} for k, w, _ in v]}
    return bfs.replay_history(MOD, data)
