"""C10 — one presentation request per episode (2.x), none in 1.x. E1, closed state space."""

from __future__ import annotations

from aiomysensors.exceptions import AIOMySensorsError

from .. import bfs, core, refmodel as R
from ..harness import Session, canon_gateway

MOD = __name__


def kinds(version: str, n: int) -> list:
    evs = [
        [n, 255, 0, 0, 17, version],  # node presentation
        [n, 255, 0, 0, 18, version],  # node presentation as a repeater node
        [n, 3, 0, 0, 6, ""],  # child presentation
        [n, 3, 1, 0, 2, ""],  # set
        [n, 3, 2, 0, 2, ""],  # req
        [n, 255, 3, 0, 0, "0"],  # battery
        [n, 255, 3, 0, 11, ""],  # sketch name
        [n, 255, 3, 0, 12, ""],  # sketch version
        [n, 255, 4, 0, 0, ""],  # stream
    ]
    if R.is2x(version):
        evs.append([n, 255, 3, 0, 22, "0"])  # heartbeat response
        evs.append([n, 255, 3, 0, 21, "0"])  # discover response
    if version == "2.2":
        evs.append([n, 255, 3, 0, 32, "0"])  # pre-sleep notification
    return evs


def is_req19(line: str) -> bool:
    f = line.rstrip("\n").split(";", 5)
    return len(f) == 6 and f[2] == "3" and f[4] == "19"


class Monitor:
    def __init__(self, cfg: dict) -> None:
        self.version = cfg["version"]
        self.nodes = cfg["nodes"]
        self.s = Session(self.version)
        self.model = R.RegistryModel()
        self.outstanding: set[int] = set()
        self.nontrivial = False
        self.last_desc = None
        self._alpha = []
        for n in self.nodes:
            for f in kinds(self.version, n):
                self._alpha.append(["line", f])
        for n in self.nodes:
            for f in kinds(self.version, n):
                if f[2] != 0 or f[1] != 255:
                    self._alpha.append(["line-fail", f])
        # traffic of the gateway itself (same version: the rules in force do not change)
        self._alpha.append(["line", [0, 255, 3, 0, 2, self.version]])
        self._alpha.append(["line", [0, 255, 0, 0, 18, self.version]])
        self._alpha.append(["line", [0, 255, 3, 0, 9, "log"]])

    def events(self) -> list:
        return self._alpha

    def apply(self, ev: list) -> list:
        v = self.version
        kind, f = ev[0], tuple(ev[1])
        n = f[0]
        viols = []

        def bad(k, what):
            viols.append((f"C10|{k}|{'2.x' if R.is2x(v) else '1.x'}", f"[{v}] {kind} {R.enc(*f)!r}: {what}", None))

        s = self.s
        if kind == "line-fail":
            from ..harness import FAULT_CLASSES

            # the first node's faults are TransportFailedError, the others' a plain TransportError (the contract)
            s.transport.fault_class = FAULT_CLASSES["failed" if n == self.nodes[0] else "plain"]
            s.transport.fail_writes = 1
        out = s.line(R.enc(*f).rstrip("\n"))
        s.transport.fail_writes = 0
        self.last_desc = out.describe()
        att19 = [(l, ok) for l, ok in out.attempts if is_req19(l)]
        exp = self.model.expect(v, f)
        want = R.enc(n, 255, 3, 0, 19, "")
        self.nontrivial = exp[0] != "ok"
        if not R.is2x(v):
            if att19:
                bad("request-under-1x", f"presentation request written under protocol {v}: {att19}")
        elif exp[0] == "ok":
            if att19:
                bad("request-without-missing", f"presentation request written for a message that refers to known node/child: {att19}")
        else:
            if n in self.outstanding:
                if att19:
                    bad("repeated-request", f"node {n} already has an outstanding presentation request, yet {att19} was written")
            else:
                if len(att19) != 1 or att19[0][0] != want:
                    bad("no-single-request", f"expected exactly one {want!r}, got attempts {out.attempts}")
                elif att19[0][1]:
                    self.outstanding.add(n)
                else:
                    # the write failed: not counted as sent, and the failure must reach the caller
                    if not (out.kind == "raise" and isinstance(out.exc, AIOMySensorsError)):
                        bad("failed-request-not-reported", f"request write failed but step gave {out.describe()}")
            if out.kind != "raise" or not isinstance(out.exc, AIOMySensorsError):
                bad("missing-not-rejected", f"message referring to a missing node/child gave {out.describe()}")
        if exp[0] == "ok" and out.kind == "yield":
            self.model.apply(v, f)
            if f[2] == 0 and f[1] == 255:
                self.outstanding.discard(n)
        return viols

    def key(self):
        shape = tuple(sorted((n, tuple(sorted(d['children']))) for n, d in self.model.nodes.items()))
        return (canon_gateway(self.s.gateway), shape, tuple(sorted(self.outstanding)))


def make(cfg):
    return Monitor(cfg)


def run(ctx: core.Ctx) -> core.Report:
    if ctx.quick:
        cfgs = [{"version": v, "nodes": [1, 2]} for v in R.VERSIONS]
    else:
        cfgs = [{"version": v, "nodes": [1, 2, 3] if v in ("1.5", "2.0", "2.2") else [1, 2]} for v in R.VERSIONS]
    res = bfs.search(ctx, MOD, cfgs, max_depth=60)
    cov = {
        "states": res["states"],
        "transitions": res["transitions"],
        "traces_validated_against_impl": res["transitions"],
        "exhaustive": res["closed"],
        "distinct_nontrivial_transitions": res["nontrivial_transitions"],
        "rule": "BFS to a fixed point; every transition one real listen() step with or without an injected write fault; non-trivial = the step refers to a missing node/child",
        "bounds": {"depth": "fixed point" if res["closed"] else "not closed", "per_cfg": res["per_cfg"]},
        "samples": ctx.pick(res["samples"], 3),
    }
    return core.Report(
        level="model_checking",
        coverage=cov,
        violations=res["violations"],
        assumptions=[
            "report payloads equal the attribute defaults so the registry component stays finite",
            "fault model: the first transport write of the step raises the transport-failed error",
        ],
    )


def replay(data: dict) -> dict:
    return bfs.replay_history(MOD, data)
