"""C10 — one presentation request per episode (2.x), none in 1.x. E1, closed state space."""

from __future__ import annotations

from aiomysensors.exceptions import AIOMySensorsError

from .. import bfs, core, refmodel as R
from ..harness import Session, canon_gateway

MOD = __name__


def kinds(version: str, n: int) -> list:
    evs = [
        [n, 255, 0, 0, 17, version],  # node presentation
        [n, 255, 0, 0, 18, version],  # node presentation as a repeater node
        [n, 3, 0, 0, 6, ""],  # child presentation
        [n, 3, 1, 0, 2, ""],  # set
        [n, 3, 2, 0, 2, ""],  # req
        [n, 255, 3, 0, 0, "0"],  # battery
        [n, 255, 3, 0, 11, ""],  # sketch name
        [n, 255, 3, 0, 12, ""],  # sketch version
        [n, 255, 4, 0, 0, ""],  # stream
        [n, 255, 3, 0, 2, version],  # a version report that does not come from the gateway node
        [n, 255, 3, 0, 6, ""],  # config request
        [n, 255, 3, 0, 1, ""],  # time request
    ]
    if R.is2x(version):
        evs.append([n, 255, 3, 0, 22, "0"])  # heartbeat response
        evs.append([n, 255, 3, 0, 21, "0"])  # discover response
    if version == "2.2":
        evs.append([n, 255, 3, 0, 32, "0"])  # pre-sleep notification
    return evs


def is_req19(line: str) -> bool:
    f = line.rstrip("\n").split(";", 5)
    return len(f) == 6 and f[2] == "3" and f[4] == "19"


class Monitor:
    def __init__(self, cfg: dict) -> None:
        self.version = cfg["version"]
        self.nodes = cfg["nodes"]
        self.persist = bool(cfg.get("persistence"))
        if self.persist:
            from aiomysensors.gateway import Config

            from .. import fsshim, pers

            self.s = Session(self.version, Config(persistence_file=pers.PATH))
            self.vfs = fsshim.VFS()
        else:
            self.s = Session(self.version)
        self.model = R.RegistryModel()
        self.outstanding: set[int] = set()
        self.sleeping: set[int] = set()  # model: nodes that announced sleep (their wake releases parked commands)
        self.app_parked: set[int] = set()  # presentation requests the APPLICATION sent that are parked for a sleeping node
        self.nontrivial = False
        self.last_desc = None
        self._alpha = []
        for n in self.nodes:
            for f in kinds(self.version, n):
                self._alpha.append(["line", f])
        for n in self.nodes:
            for f in kinds(self.version, n):
                if f[2] != 0 or f[1] != 255:
                    self._alpha.append(["line-fail", f])
        # a slow link: the first transport write of the step takes 30 (virtual) seconds
        for n in self.nodes[:1]:
            for f in kinds(self.version, n)[2:5]:
                self._alpha.append(["line-slow", f])
        # traffic of the gateway itself (same version: the rules in force do not change)
        self._alpha.append(["line", [0, 255, 3, 0, 2, self.version]])
        self._alpha.append(["line", [0, 255, 0, 0, 18, self.version]])
        self._alpha.append(["line", [0, 255, 3, 0, 9, "log"]])
        # a new node asks for an id (the placeholder registered for it is not a presentation of anybody)
        if cfg.get("idreq"):
            self._alpha.append(["line", [255, 255, 3, 0, 3, ""]])
        if cfg.get("badgw"):
            # the gateway node presents itself with a version string that cannot be used (the presentation registers the
            # node, the version report inside it is refused)
            self._alpha.append(["line", [0, 255, 0, 0, 18, ""]])
            self._alpha.append(["line", [0, 255, 0, 0, 18, "2.x"]])
        # the gateway reports other 2.x releases: the rules in force change, the episodes do not
        for r in cfg.get("switch", []):
            self._alpha.append(["line", [0, 255, 3, 0, 2, r]])
            self._alpha.append(["line", [0, 255, 0, 0, 18, r]])
        # the application itself asks a node to present itself (a send, parked if that node sleeps)
        if cfg.get("app"):
            for n in self.nodes:
                self._alpha.append(["app-request", [n, 255, 3, 0, 19, ""]])
        if self.persist:
            self._alpha.append(["reenter", [0, 0, 0, 0, 0, ""]])

    def events(self) -> list:
        # id requests only while fewer than two ids have been handed out (each one adds a node: the space must close)
        if len(self.s.gateway.nodes) > len(self.model.nodes) + 1 or len(self.model.nodes) >= len(self.nodes) + 2:
            return [e for e in self._alpha if not (e[0] == "line" and e[1][2] == 3 and e[1][4] == 3)]
        return self._alpha

    def apply(self, ev: list) -> list:
        v = self.version
        kind, f = ev[0], tuple(ev[1])
        n = f[0]
        viols = []

        def bad(k, what):
            viols.append((f"C10|{k}|{'2.x' if R.is2x(v) else '1.x'}", f"[{v}] {kind} {R.enc(*f)!r}: {what}", None))

        s = self.s
        if kind == "app-request":
            from aiomysensors.model.message import Message

            out = s.send(Message(*f))
            self.last_desc = out.describe()
            self.nontrivial = False
            if out.kind == "return" and not out.writes and n in self.model.nodes:
                self.app_parked.add(n)
            return viols
        if kind == "reenter":
            from .. import pers

            gw = s.gateway
            k1, v1 = pers.run(gw.__aenter__, self.vfs)
            k2, v2 = pers.run(lambda: gw.__aexit__(None, None, None), self.vfs) if k1 == "ok" else ("skipped", None)
            self.last_desc = {"reenter": [k1, type(v1).__name__, k2, type(v2).__name__]}
            self.nontrivial = False
            if k1 != "ok" or k2 != "ok":
                bad("reenter-failed", f"leaving and re-entering the context gave {k1} {v1!r} / {k2} {v2!r}")
            s._agen = None
            return viols
        if kind == "line-fail":
            from ..harness import FAULT_CLASSES

            # the first node's faults are TransportFailedError, the others' a plain TransportError (the contract)
            s.transport.fault_class = FAULT_CLASSES["failed" if n == self.nodes[0] else "plain"]
            s.transport.fail_writes = 1
        if kind == "line-slow":
            s.transport.slow_writes = 1
        node_before = s.gateway.nodes.get(n)
        out = s.line(R.enc(*f).rstrip("\n"))
        s.transport.slow_writes = 0
        s.transport.fail_writes = 0
        self.last_desc = out.describe()
        att19 = [(l, ok) for l, ok in out.attempts if is_req19(l)]
        exp = self.model.expect(v, f)
        is_wake = f[2] == 3 and f[4] == R.wake_type(v) if R.is2x(v) else False
        if is_wake and exp[0] == "ok" and n in self.app_parked:
            # the application's own parked request is released by the wake (C07/C12): not ours to judge
            att19 = [a for a in att19 if a[0] != R.enc(n, 255, 3, 0, 19, "")] + [a for a in att19 if a[0] == R.enc(n, 255, 3, 0, 19, "")][1:]
            if out.kind == "yield":
                self.app_parked.discard(n)
        want = R.enc(n, 255, 3, 0, 19, "")
        # the statement is about messages that ARE rejected for this reason: whatever the reference registry thinks,
        # a message the library rejects as "node / child not in the registry" starts or continues an episode
        rejected_missing = out.kind == "raise" and type(out.exc).__name__ in ("MissingNodeError", "MissingChildError")
        if exp[0] == "ok" and rejected_missing:
            exp = ("rejected_as_missing", None)
        self.nontrivial = exp[0] != "ok"
        if not R.is2x(v):
            if att19:
                bad("request-under-1x", f"presentation request written under protocol {v}: {att19}")
        elif exp[0] == "ok":
            if att19:
                bad("request-without-missing", f"presentation request written for a message that refers to known node/child: {att19}")
        else:
            if n in self.outstanding:
                if att19:
                    bad("repeated-request", f"node {n} already has an outstanding presentation request, yet {att19} was written")
            else:
                if len(att19) != 1 or att19[0][0] != want:
                    bad("no-single-request", f"expected exactly one {want!r}, got attempts {out.attempts}")
                elif att19[0][1]:
                    self.outstanding.add(n)
                else:
                    # the write failed: not counted as sent, and the failure must reach the caller
                    if not (out.kind == "raise" and isinstance(out.exc, AIOMySensorsError)):
                        bad("failed-request-not-reported", f"request write failed but step gave {out.describe()}")
            if out.kind != "raise" or not isinstance(out.exc, AIOMySensorsError):
                bad("missing-not-rejected", f"message referring to a missing node/child gave {out.describe()}")
        if f[2] == 0 and f[1] == 255 and out.kind == "raise" and s.gateway.nodes.get(n) is not None and s.gateway.nodes.get(n) is not node_before:
            # the registry took this presentation (the node was created or re-created) although the line ended in an error
            # (an unusable version string in the gateway node's presentation): the node has presented itself
            self.outstanding.discard(n)
            self.sleeping.discard(n)
            self.model.nodes[n] = self.model.fresh(f[4], f[5])
        if f[2] == 3 and f[4] == R.I_ID_REQUEST:
            for w in out.writes:
                g = w.rstrip("\n").split(";", 5)
                if g[2] == "3" and g[4] == "4" and R.PLAIN_INT.match(g[5]) and int(g[5]) not in self.model.nodes:
                    self.model.placeholder(int(g[5]))
        elif exp[0] == "ok" and out.kind == "yield":
            self.model.apply(v, f)
            if f[2] == 0 and f[1] == 255:
                self.outstanding.discard(n)
                self.sleeping.discard(n)
            if is_wake:
                self.sleeping.add(n)
            if n == 0 and ((f[2] == 3 and f[4] == 2) or (f[2] == 0 and f[1] == 255)) and R.spec_protocol(f[5]) is not None:
                self.version = R.spec_protocol(f[5])
        return viols

    def key(self):
        shape = tuple(sorted((n, tuple(sorted(d['children']))) for n, d in self.model.nodes.items()))
        return (canon_gateway(self.s.gateway), shape, tuple(sorted(self.outstanding)), tuple(sorted(self.app_parked)))


def make(cfg):
    return Monitor(cfg)


class TimeoutScenario:
    """A presentation request whose write was abandoned (the application's wait for the next message timed out while it
    was in flight) does not count as sent: the next rejected message from that node triggers a request again; once a
    request has been written, further rejected messages write nothing."""

    horizon = 3000

    def __init__(self, cfg: dict, loop) -> None:
        import asyncio

        from aiomysensors.gateway import Gateway

        from ..harness import AsyncScriptTransport

        self.asyncio = asyncio
        self.cfg = cfg
        self.loop = loop
        t = self.t = AsyncScriptTransport(loop)
        self.gw = Gateway(t)
        self.gw.protocol_version = cfg["version"]
        t.sync = False
        self.script = list(cfg["lines"])
        self.pos = 0
        self.budget = cfg.get("timeouts", 1)
        self.timed_out = False
        self.step_task = None
        self.nontrivial = False
        self.listener = loop.create_task(self._listen())

    async def _listen(self):
        agen = self.gw.listen()
        try:
            for _ in self.script:
                self.step_task = self.loop.create_task(agen.__anext__())
                try:
                    await self.step_task
                except AIOMySensorsError:
                    await agen.aclose()
                    agen = self.gw.listen()
                except self.asyncio.CancelledError:
                    if not self.timed_out:
                        raise
                    self.timed_out = False
                    await agen.aclose()
                    agen = self.gw.listen()
        finally:
            self.step_task = None
            await agen.aclose()

    def enabled(self) -> list:
        self.t.pending_writes[:] = [e for e in self.t.pending_writes if not e[0].done()]
        evs = []
        if self.pos < len(self.script) and self.t.pending_read is not None:
            evs.append("line")
        for i in range(len(self.t.pending_writes)):
            evs.append(f"write:{i}")
        if self.budget > 0 and self.t.pending_writes and self.step_task is not None and not self.step_task.done():
            evs.append("timeout")
        return evs

    def fire(self, label: str) -> None:
        if label == "line":
            self.t.deliver(self.script[self.pos])
            self.pos += 1
        elif label == "timeout":
            self.budget -= 1
            self.nontrivial = True
            self.timed_out = True
            self.step_task.cancel()
        else:
            self.t.complete_write(int(label.split(":")[1]))

    def finished(self) -> bool:
        return self.pos >= len(self.script) and self.listener.done() and self.loop.ready_count() == 0

    def verdict(self, hang: bool) -> list:
        viols = []

        def bad(k, what):
            viols.append((f"C10|timeout-{k}|2.x", f"[{self.cfg['version']}] lines {self.script}: {what}", None))

        if hang:
            bad("hang", "no enabled event while the listener is unfinished")
            return viols
        # per node: requests issued, in order, with their fate
        for n in sorted({ln.split(";")[0] for ln in self.script}):
            want = f"{n};255;3;0;19;\n"
            fates = [st for line, st in self.t.entries if line == want]
            msgs = sum(1 for ln in self.script if ln.split(";")[0] == n)
            done = [i for i, st in enumerate(fates) if st == "ok"]
            if len(done) > 1:
                bad("repeated-request", f"node {n}: {len(done)} presentation requests were written although it never presented itself (fates {fates})")
            if not done and len(fates) < msgs:
                bad("abandoned-request-counted-as-sent", f"node {n} sent {msgs} rejected messages; requests issued: {fates} - after the abandoned one no further request was written")
        return viols

    def observation(self):
        return {"entries": [list(e) for e in self.t.entries]}


def make_scenario(cfg, loop):
    return TimeoutScenario(cfg, loop)


def run(ctx: core.Ctx) -> core.Report:
    if ctx.quick:
        cfgs = [{"version": v, "nodes": [1, 2]} for v in R.VERSIONS]
        cfgs.append({"version": "2.1", "nodes": [1], "persistence": True})
        cfgs.append({"version": "2.2", "nodes": [1], "app": True})
        cfgs.append({"version": "2.0", "nodes": [1], "switch": ["2.1.1", "2.2.0", "2.0.0"]})
        cfgs.append({"version": "2.1", "nodes": [1], "idreq": True})
        cfgs.append({"version": "2.0", "nodes": [0], "badgw": True})
    else:
        cfgs = [{"version": v, "nodes": [1, 2, 3] if v in ("1.5", "2.0", "2.2") else [1, 2]} for v in R.VERSIONS]
        cfgs += [{"version": v, "nodes": [1, 2], "persistence": True} for v in ("1.5", "2.0", "2.2")]
        cfgs += [{"version": v, "nodes": [1, 2], "app": True} for v in ("2.0", "2.2")]
        cfgs += [{"version": v, "nodes": [1, 2], "switch": ["2.1.1", "2.2.0", "2.0.0", "2.0.1"]} for v in ("2.0", "2.1")]
        cfgs += [{"version": v, "nodes": [1, 2], "idreq": True} for v in ("1.5", "2.0", "2.2")]
        cfgs += [{"version": v, "nodes": [0, 1], "badgw": True} for v in ("2.1", "2.2")]
    res = bfs.search(ctx, MOD, cfgs, max_depth=60)
    from .. import explore

    xcfgs = [{"version": v, "lines": ls, "timeouts": 1} for v in (("2.1",) if ctx.quick else ("2.0", "2.1", "2.2")) for ls in (["7;3;1;0;2;x", "7;3;1;0;2;y", "7;255;3;0;0;50"], ["7;3;1;0;2;x", "8;3;1;0;2;x", "7;3;2;0;2;", "8;255;3;0;0;5"])]
    xres = explore.explore(ctx, MOD, xcfgs, 1 if ctx.quick else 3)
    res["violations"] += xres["violations"]
    res["transitions"] += xres["executions"]
    cov = {
        "states": res["states"],
        "transitions": res["transitions"],
        "traces_validated_against_impl": res["transitions"],
        "exhaustive": res["closed"],
        "distinct_nontrivial_transitions": res["nontrivial_transitions"],
        "rule": "BFS to a fixed point; every transition one real listen() step with or without an injected write fault or a write that takes 30 virtual seconds; plus E2 scenarios in which the wait for the next message times out while a request is being written; non-trivial = the step refers to a missing node/child",
        "bounds": {"depth": "fixed point" if res["closed"] else "not closed", "per_cfg": res["per_cfg"]},
        "samples": ctx.pick(res["samples"], 3),
    }
    return core.Report(
        level="model_checking",
        coverage=cov,
        violations=res["violations"],
        assumptions=[
            "report payloads equal the attribute defaults so the registry component stays finite",
            "fault model: the first transport write of the step raises the transport-failed error",
        ],
    )


def replay(data: dict) -> dict:
    if "choices" in data:
        from .. import explore

        return explore.replay(MOD, data)
    return bfs.replay_history(MOD, data)
