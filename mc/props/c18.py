"""C18 — MQTT transport maps topics and lines one-to-one and never goes silently deaf. E3 + E2."""

from __future__ import annotations

import asyncio
import gc
import itertools
from unittest.mock import patch

from aiomysensors.exceptions import TransportError
from aiomysensors.model.message import Message, MessageSchema
from aiomysensors.model.protocol import get_protocol
from aiomysensors.transport.mqtt import MQTTClient, MQTTTransport

from .. import core, explore, refmodel as R
from ..mqttfake import FakeClient, topic_matches
from ..vloop import VLoop

MOD = __name__
PREFIXES = [("p-out", "p"), ("a/b/out", "a/b"), ("mygateway1-out", "mygateway1-in"), ("x/y/z", "x/y/z/w"), ("/lead/out", "/lead/in"), ("t/", "u/"),
            ("home/(attic)/[gw]{1}|a.*?^$-out", "home/(attic)/[gw]{1}|a.*?^$-in"),
            # one topic tree for both directions: what the controller publishes comes back on its own subscription
            ("shared", "shared"), ("s/t", "s/t"),
            # characters that mean something to % / str.format machinery
            ("p%20a-out", "p%20a-in"), ("a%%b/{0}-out", "a%%b/{0}-in")]
PAYLOADS = ["", "x", "a;b", ";", "a;b;c", "a/b", "é", "1", "a b", "#", "+", "a\u2028b\x1ec", "a\x85b\rc\x0bd"]
_LOOP: VLoop | None = None


def vloop() -> VLoop:
    global _LOOP
    if _LOOP is None:
        _LOOP = VLoop()
    return _LOOP


def runc(loop, coro):
    task = loop.create_task(coro)
    loop.run_ready()
    if not task.done():
        task.cancel()
        loop.run_ready()
        return ("hang", None)
    if task.cancelled():
        return ("cancelled", None)
    if task.exception() is not None:
        return ("raise", task.exception())
    return ("ok", task.result())


def field_grid(quick: bool) -> list:
    nodes = [0, 1, 255] if quick else [0, 1, 10, 254, 255]
    children = [0, 1, 255] if quick else [0, 1, 10, 254, 255]
    types = [0, 3, 4, 49] if quick else [0, 1, 3, 4, 9, 10, 49, 255]
    out = []
    for n, c, cmd, ack, t in itertools.product(nodes, children, range(5), (0, 1), types):
        if R.cross_field_ok(n, c, cmd, ack, t):
            out.append((n, c, cmd, ack, t))
    return out


class Recorder(MQTTTransport):
    """Minimal concrete MQTTTransport: observes the abstract _publish/_subscribe hooks."""

    def __init__(self, **kw) -> None:
        super().__init__(**kw)
        self.pub = []
        self.sub = []

    async def _connect(self) -> None:
        pass

    async def _disconnect(self) -> None:
        pass

    async def _publish(self, topic, payload, qos) -> None:
        self.pub.append((topic, payload, qos))

    async def _subscribe(self, topic, qos) -> None:
        self.sub.append((topic, qos))


_SCHEMA = None


def schema():
    global _SCHEMA
    if _SCHEMA is None:
        _SCHEMA = MessageSchema()
        _SCHEMA.set_protocol(get_protocol("2.2"))
    return _SCHEMA


def same_payload(got, want: str) -> bool:
    if want == "":
        return got in (None, "", b"")
    return got == want or got == want.encode("utf-8")


def job_mapping(j):
    in_prefix, out_prefix, heads = j
    loop = vloop()
    loop.enter()
    viols = []
    n = 0
    try:
        with patch("aiomysensors.transport.mqtt.AsyncioClient", FakeClient):
            FakeClient.instances.clear()
            FakeClient.plan = {}
            rec = Recorder(in_prefix=in_prefix, out_prefix=out_prefix)
            cli = MQTTClient("broker", 1883, in_prefix=in_prefix, out_prefix=out_prefix)
            k, v = runc(loop, rec.connect())
            k2, v2 = runc(loop, cli.connect())
            fake = FakeClient.instances[-1] if FakeClient.instances else None

            def bad(kind, what, f=None, p=None):
                semi = p is not None and ";" in p
                # the replay re-runs every write of this job up to the failing message (one transport object, in order)
                upto = [list(h) for h in heads[: heads.index(f) + 1]] if f in heads else [list(h) for h in heads]
                viols.append((f"C18|{kind}|semicolon={semi}", f"[in={in_prefix!r} out={out_prefix!r}] {what}", {"mode": "mapping", "in": in_prefix, "out": out_prefix, "heads": upto, "payload": p}))

            if k != "ok" or k2 != "ok" or fake is None:
                bad("connect", f"connect gave {k} {v!r} / {k2} {v2!r}")
                return n, viols
            for head in heads:
                n_, c, cmd, ack, t = head
                in_topic = f"{in_prefix}/{n_}/{c}/{cmd}/{ack}/{t}"
                for name, subs in (("hook", rec.sub), ("client", fake.subscriptions)):
                    if not any(topic_matches(f, in_topic) for f, _ in subs):
                        bad("not-subscribed", f"{name}: no subscription matches {in_topic!r}; filters {[f for f, _ in subs]}", head)
                for p in PAYLOADS:
                    n += 1
                    line = R.enc(*head, p)
                    want_topic = f"{out_prefix}/{n_}/{c}/{cmd}/{ack}/{t}"
                    for name, tr, log in (("hook", rec, rec.pub), ("client", cli, fake.published)):
                        before = len(log)
                        kk, vv = runc(loop, tr.write(line))
                        if kk != "ok":
                            excn = type(vv).__name__ if kk == "raise" else kk
                            bad(f"write-raised:{excn}", f"{name}: write({line!r}) gave {excn}: {vv}", head, p)
                            continue
                        new = log[before:]
                        if len(new) != 1:
                            bad("publish-count", f"{name}: write({line!r}) published {new}", head, p)
                            continue
                        topic, payload, qos = new[0][0], new[0][1], new[0][2]
                        if topic != want_topic or not same_payload(payload, p) or qos != ack:
                            bad("publish-mapping", f"{name}: write({line!r}) published topic={topic!r} payload={payload!r} qos={qos}; expected topic={want_topic!r} payload={p!r} qos={ack}", head, p)
                            continue
                        if name == "client":
                            # echo under the in-prefix: read back -> same line -> same message
                            raw = p.encode("utf-8")
                            if not fake.deliver(in_topic, raw):
                                continue
                            loop.run_ready()
                            kk, vv = runc(loop, cli.read())
                            if kk != "ok":
                                bad(f"echo-read:{type(vv).__name__ if kk == 'raise' else kk}", f"echo of {line!r} on {in_topic!r}: read gave {kk} {vv!r}", head, p)
                                # a hang may mean the receive task died: reconnect a fresh client
                                if kk == "hang":
                                    return n, viols
                                continue
                            if vv.rstrip("\n") != line.rstrip("\n"):
                                bad("echo-line", f"echo of {line!r} read back as {vv!r}", head, p)
                                continue
                            try:
                                m = schema().load(vv)
                                got = (m.node_id, m.child_id, m.command, m.ack, m.message_type, m.payload)
                                if got != head + (p,):
                                    bad("echo-message", f"echo of {line!r} decodes to {got}", head, p)
                            except Exception as exc:  # noqa: BLE001
                                bad("echo-decode", f"echo of {line!r} read back as {vv!r} does not decode: {exc}", head, p)
            runc(loop, cli.disconnect())
    finally:
        for t in list(asyncio.all_tasks(loop)):
            t.cancel()
        loop.run_ready()
        loop._ready.clear()
        loop.leave()
    return n, viols


# -- E2: arrival order / exactly once / never deaf / life cycle -------------------------------

ARRIVALS = {
    "A": ("p-out/1/3/1/0/2", b"on"),
    "B": ("p-out/2/4/1/1/0", b"21;5"),
    "X": ("p-out/1/3/1/0/2", b"\xff\xfe"),
}
LINES = {"A": "1;3;1;0;2;on", "B": "2;4;1;1;0;21;5"}


class RxScenario:
    horizon = 3000

    def __init__(self, cfg: dict, loop) -> None:
        self.cfg = cfg
        self.loop = loop
        self._patch = patch("aiomysensors.transport.mqtt.AsyncioClient", FakeClient)
        self._patch.start()
        FakeClient.instances.clear()
        FakeClient.plan = {}
        FakeClient.delivery = cfg.get("delivery", "qos0")
        self.t = MQTTClient("broker", 1883, in_prefix="p-out", out_prefix="p-in")
        k, v = runc(loop, self.t.connect())
        assert k == "ok", (k, v)
        self.fake = FakeClient.instances[-1]
        self.seq = cfg["arrivals"]
        self.next = 0
        self.results: list = []
        self.disc = None
        self.disc_fired = False
        self.nontrivial = False
        self.consumer = None  # started by the environment event "reader": reads may begin before, between or after arrivals
        self.read_task = None
        self.timed_out = False
        self.timeouts = cfg.get("timeouts", 0)

    async def _consume(self):
        for _ in range(self.cfg["reads"]):
            try:
                while True:
                    # each read is a wait with a timeout (asyncio.wait_for): when it expires the application reads again
                    self.read_task = self.loop.create_task(self.t.read())
                    try:
                        r = await self.read_task
                        break
                    except asyncio.CancelledError:
                        if not self.timed_out:
                            raise  # the consumer itself is being cancelled (end of the execution)
                        self.timed_out = False
                self.results.append(("ok", r.rstrip("\n")))
            except TransportError as exc:
                self.results.append(("err", type(exc).__name__))
            except asyncio.CancelledError:
                raise
            except BaseException as exc:  # noqa: BLE001
                self.results.append(("foreign", type(exc).__name__, str(exc)))
                return

    async def _disconnect(self):
        await self.t.disconnect()

    def enabled(self) -> list:
        evs = []
        if self.cfg["reads"] and self.consumer is None:
            evs.append("reader")
        if self.next < len(self.seq) and not self.disc_fired:
            evs.append(f"arrive:{self.seq[self.next]}")
        if self.cfg["disconnect"] and not self.disc_fired:
            evs.append("disconnect")
        if self.timeouts > 0 and self.read_task is not None and not self.read_task.done():
            evs.append("timeout")
        return evs

    def fire(self, label: str) -> None:
        if label.startswith("arrive:"):
            sym = label.split(":")[1]
            self.next += 1
            if self.loop.ready_count():
                self.nontrivial = True
            if sym == "E":
                self.fake.broker_error()
            else:
                topic, payload = ARRIVALS[sym]
                assert self.fake.deliver(topic, payload)
        elif label == "timeout":
            self.timeouts -= 1
            self.nontrivial = True
            self.timed_out = True
            self.read_task.cancel()
        elif label == "reader":
            self.consumer = self.loop.create_task(self._consume())
        elif label == "disconnect":
            self.disc_fired = True
            self.nontrivial = True
            self.disc = self.loop.create_task(self._disconnect())

    def finished(self) -> bool:
        if self.loop.ready_count():
            return False
        if self.cfg["disconnect"]:
            return self.disc_fired and self.disc.done()
        if self.cfg["reads"] and self.consumer is None:
            return False
        return self.next >= len(self.seq) and (self.consumer is None or self.consumer.done())

    def verdict(self, hang: bool) -> list:
        viols = []

        def bad(k, what):
            viols.append((f"C18|{k}", f"arrivals {self.seq} reads {self.cfg['reads']} disconnect {self.cfg['disconnect']}: {what}", None))

        try:
            want = []
            for sym in self.seq[: self.next]:
                want.append(("ok", LINES[sym]) if sym in LINES else ("err",))
            if not self.cfg["disconnect"]:
                if hang or (self.consumer is not None and not self.consumer.done()):
                    bad("read-hangs", f"a read is still waiting although every arrival was delivered to the transport: results {self.results}, arrivals {self.seq}")
                for r in self.results:
                    if r[0] == "foreign":
                        bad(f"read-foreign-exception:{r[1]}", f"read raised {r[1]}: {r[2]}")
                for i, (g, w) in enumerate(zip(self.results, want)):
                    if (w[0] == "ok" and g != w) or (w[0] == "err" and g[0] != "err"):
                        bad("arrival-order", f"read #{i} gave {g}, arrival #{i} was {w}; results {self.results}")
                        break
                tasks = [t for t in self.loop.tasks() if not t.done() and t is not self.consumer and t is not self.read_task]
                if "E" not in self.seq and not tasks:
                    bad("receive-task-died", "no receive task is running although the connection is up (silently deaf)")
            else:
                if hang or not self.disc.done():
                    bad("disconnect-hangs", "disconnect did not complete")
                elif self.disc.cancelled():
                    bad("disconnect-cancelled", "disconnect ended with CancelledError")
                elif self.disc.exception() is not None:
                    e = self.disc.exception()
                    bad(f"disconnect-raised:{type(e).__name__}", f"disconnect raised {e!r}")
                if self.fake.exited != 1 and self.disc.done():
                    bad("client-not-closed", f"the broker client's __aexit__ was called {self.fake.exited} times")
                left = [t for t in self.loop.tasks() if not t.done() and t is not self.consumer and t is not self.read_task]
                if left:
                    bad("task-left-running", f"{[getattr(t.get_coro(), '__qualname__', '?') for t in left]} still running after disconnect")
            gc.collect()
            for c in self.loop.exc_records:
                e = c.get("exception")
                if isinstance(e, asyncio.CancelledError):
                    continue
                bad(f"loop-error:{type(e).__name__}", f"event loop exception handler: {c.get('message')} {e!r}")
        finally:
            FakeClient.delivery = "qos0"
            self._patch.stop()
        return viols

    def observation(self):
        return {"results": [list(r) for r in self.results], "disc": None if self.disc is None else self.disc.done()}


def make_scenario(cfg, loop):
    return RxScenario(cfg, loop)


def rx_configs(quick: bool) -> list:
    out = []
    maxlen = 3 if quick else 4
    for n in range(1, maxlen + 1):
        for seq in itertools.product("ABX", repeat=n):
            out.append({"arrivals": list(seq), "reads": n, "disconnect": False})
            out.append({"arrivals": list(seq[:-1]) + ["E"], "reads": n, "disconnect": False})
    # delivery metadata: every message arrives as QoS 1 with the same packet id (brokers reuse ids), or retained
    for dl in ("same-mid", "retained"):
        for seq in (["A", "B"], ["A", "A", "B"], ["B", "X", "A"]):
            out.append({"arrivals": seq, "reads": len(seq), "disconnect": False, "delivery": dl})
    # a read times out (is cancelled) once or twice, at any moment relative to the arrivals, and the application reads again
    for seq in (["A"], ["A", "B"], ["X", "A"], ["B", "A", "B"]):
        out.append({"arrivals": seq, "reads": len(seq), "disconnect": False, "timeouts": 1})
    out.append({"arrivals": ["A", "B"], "reads": 2, "disconnect": False, "timeouts": 2})
    for n in range(0, 3):
        for seq in itertools.product("ABX", repeat=n):
            out.append({"arrivals": list(seq), "reads": 0, "disconnect": True})
            out.append({"arrivals": list(seq), "reads": 1, "disconnect": True})
            out.append({"arrivals": list(seq) + ["E"], "reads": 0, "disconnect": True})
    # dedupe
    seen = set()
    uniq = []
    for c in out:
        k = repr(c)
        if k not in seen:
            seen.add(k)
            uniq.append(c)
    return uniq


def lifecycle_faults() -> list:
    """connect / subscribe / publish / exit failures of the broker client surface as transport errors."""
    from aiomqtt import MqttError

    loop = vloop()
    loop.enter()
    viols = []

    def bad(k, what):
        viols.append((f"C18|{k}", what, {"mode": "lifecycle"}))

    try:
        with patch("aiomysensors.transport.mqtt.AsyncioClient", FakeClient):
            for op in ("connect", "subscribe"):
                FakeClient.plan = {op: MqttError("boom")}
                t = MQTTClient("b")
                k, v = runc(loop, t.connect())
                if not (k == "raise" and isinstance(v, TransportError)):
                    bad(f"{op}-failure", f"{op} failing gave {k} {v!r}")
            for x in [x for x in asyncio.all_tasks(loop) if not x.done()]:
                x.cancel()  # (what a failed connect leaves behind is C16's statement, not C18's)
            loop.run_ready()
            # connect, disconnect, connect again on the same object: subscribed again, messages flow again
            FakeClient.plan = {}
            FakeClient.instances.clear()
            t = MQTTClient("b", 1883, in_prefix="r-out", out_prefix="r-in")
            for round_ in (1, 2):
                k, v = runc(loop, t.connect())
                if k != "ok":
                    bad("reconnect", f"connect #{round_} on the same transport gave {k} {v!r}")
                    break
                fake = FakeClient.instances[-1]
                topic = "r-out/1/3/1/0/2"
                if not fake.deliver(topic, b"on"):
                    bad("reconnect-not-subscribed", f"after connect #{round_} no subscription matches {topic!r}: {fake.subscriptions}")
                else:
                    loop.run_ready()
                    k, v = runc(loop, t.read())
                    if k != "ok" or v.rstrip("\n") != "1;3;1;0;2;on":
                        bad("reconnect-read", f"after connect #{round_} read gave {k} {v!r}")
                k, v = runc(loop, t.disconnect())
                if k != "ok":
                    bad("reconnect-disconnect", f"disconnect #{round_} gave {k} {v!r}")
            # messages, a decode error and more messages arrive and are not read; the application disconnects, a
            # connection attempt fails at subscribe time, the retry succeeds: everything that had arrived is
            # still delivered, once, in arrival order, followed by what arrives on the new connection
            for fail_at in (None, "subscribe", "connect"):
                FakeClient.plan = {}
                FakeClient.instances.clear()
                t = MQTTClient("b", 1883, in_prefix="k-out", out_prefix="k-in")
                runc(loop, t.connect())
                fake = FakeClient.instances[-1]
                fake.deliver("k-out/1/3/1/0/2", b"one")
                fake.deliver("k-out/1/3/1/0/2", b"\xff\xfe")
                fake.deliver("k-out/2/4/1/0/0", b"two;2")
                loop.run_ready()
                runc(loop, t.disconnect())
                if fail_at is not None:
                    FakeClient.plan = {fail_at: MqttError("boom")}
                    k, v = runc(loop, t.connect())
                    if not (k == "raise" and isinstance(v, TransportError)):
                        bad(f"{fail_at}-failure", f"{fail_at} failing on a reconnect gave {k} {v!r}")
                    FakeClient.plan = {}
                k, v = runc(loop, t.connect())
                if k != "ok":
                    bad("reconnect", f"connect after a failed attempt ({fail_at}) gave {k} {v!r}")
                    continue
                FakeClient.instances[-1].deliver("k-out/1/3/1/0/2", b"three")
                loop.run_ready()
                got = []
                for _ in range(4):
                    k, v = runc(loop, t.read())
                    got.append(v.rstrip("\n") if k == "ok" else ("error" if k == "raise" and isinstance(v, TransportError) else f"{k}:{v!r}"))
                want = ["1;3;1;0;2;one", "error", "2;4;1;0;0;two;2", "1;3;1;0;2;three"]
                if got != want:
                    bad("backlog-across-reconnect", f"three arrivals were left unread, then disconnect{'' if fail_at is None else ', a connection attempt failing at ' + fail_at}, connect, one more arrival: reads gave {got}, expected {want}")
                runc(loop, t.disconnect())
            # a read that is already waiting when the transport is disconnected and connected again gets the next message
            FakeClient.plan = {}
            FakeClient.instances.clear()
            t = MQTTClient("b", 1883, in_prefix="w-out", out_prefix="w-in")
            runc(loop, t.connect())
            pending = loop.create_task(t.read())
            loop.run_ready()
            runc(loop, t.disconnect())
            k, v = runc(loop, t.connect())
            if k == "ok" and FakeClient.instances[-1].deliver("w-out/1/3/1/0/2", b"on"):
                loop.run_ready()
                if not pending.done():
                    bad("pending-read-deaf-after-reconnect", "a read that was waiting across disconnect + connect never received the next message")
                    pending.cancel()
                    loop.run_ready()
                elif pending.exception() is not None or pending.result().rstrip("\n") != "1;3;1;0;2;on":
                    bad("pending-read-after-reconnect", f"the waiting read gave {pending!r}")
            runc(loop, t.disconnect())
            # a publish that fails with a broker error, later the broker connection breaks while receiving:
            # the reader must still be told
            FakeClient.plan = {}
            FakeClient.instances.clear()
            t = MQTTClient("b", 1883, in_prefix="f-out", out_prefix="f-in")
            runc(loop, t.connect())
            fake = FakeClient.instances[-1]
            fake.fail["publish"] = MqttError("puback timeout")
            k, v = runc(loop, t.write("1;3;1;1;2;x\n"))
            if not (k == "raise" and isinstance(v, TransportError)):
                bad("publish-failure", f"a failing publish gave {k} {v!r}")
            fake.fail.pop("publish", None)
            runc(loop, t.write("1;3;1;0;2;y\n"))
            fake.deliver("f-out/1/3/1/0/2", b"on")
            loop.run_ready()
            k, v = runc(loop, t.read())
            fake.broker_error()
            loop.run_ready()
            k, v = runc(loop, t.read())
            if not (k == "raise" and isinstance(v, TransportError)):
                bad("receive-error-after-publish-error", f"after an earlier failed publish, a broker error while receiving gave the reader {k} {v!r}")
            runc(loop, t.disconnect())
            FakeClient.plan = {"publish": MqttError("boom")}
            t = MQTTClient("b")
            runc(loop, t.connect())
            k, v = runc(loop, t.write("1;1;1;0;2;x\n"))
            if not (k == "raise" and isinstance(v, TransportError)):
                bad("publish-failure", f"publish failing gave {k} {v!r}")
            runc(loop, t.disconnect())
            FakeClient.plan = {"exit": MqttError("boom")}
            t = MQTTClient("b")
            runc(loop, t.connect())
            k, v = runc(loop, t.disconnect())
            if k != "ok":
                bad("disconnect-failure", f"broker client exit failing: disconnect gave {k} {v!r}")
            FakeClient.plan = {}
    finally:
        for t in list(asyncio.all_tasks(loop)):
            t.cancel()
        loop.run_ready()
        loop._ready.clear()
        loop.leave()
    return viols


def run(ctx: core.Ctx) -> core.Report:
    grid = field_grid(ctx.quick)
    per = max(1, len(grid) // 8)
    jobs = [(i, o, grid[k : k + per]) for i, o in PREFIXES for k in range(0, len(grid), per)]
    res = core.pmap(job_mapping, jobs, ctx.workers, chunksize=1)
    n_map = sum(r[0] for r in res)
    viols = [core.Violation(k, w, rep) for r in res for k, w, rep in r[1]]
    viols += [core.Violation(k, w, rep) for k, w, rep in lifecycle_faults()]
    cfgs = rx_configs(ctx.quick)
    rres = explore.explore(ctx, MOD, cfgs, 2 if ctx.quick else 99)
    viols += rres["violations"]
    cov = {
        "evaluations": n_map + rres["executions"],
        "distinct_nontrivial": sum(1 for p in PAYLOADS if ";" in p or "/" in p) * len(grid) * len(PREFIXES) + rres["nontrivial"],
        "rule": "mapping: field grid x 4 prefix pairs (with and without '/') x 11 payloads: publish topic/payload/qos at the abstract hook and at the broker client, subscription coverage of every in-topic, echo read-back and decode; reception: every sequence of <= 3/4 arrivals from {message A, message B, binary payload, broker error last} interleaved in every order with the reads of a consumer (in five configurations a waiting read times out once or twice and is repeated), and disconnect after every prefix; non-trivial = payload contains ';' or '/', or an arrival/disconnect lands while handles are queued",
        "exhaustive": True,
        "bounds": {"field_combinations": len(grid), "prefix_pairs": len(PREFIXES), "payloads": len(PAYLOADS), "rx_configs": len(cfgs), "rx_executions": rres["executions"]},
        "samples": [{"fields": list(grid[ctx.seed % len(grid)]), "payload": "a;b", "prefix": PREFIXES[1]}, rres["sample"]],
    }
    return core.Report(level="exploration", coverage=cov, violations=viols, assumptions=["aiomqtt.Client replaced by a fake at the seam the repo's tests patch; aiomqtt's real MessagesIterator and Message are used", "broker delivers only topics matching a recorded subscription (standard MQTT filter matching)"])


def replay(data: dict) -> dict:
    if data.get("mode") == "mapping":
        heads = [tuple(h) for h in data["heads"]] if data.get("heads") else field_grid(True)[:3]
        n, v = job_mapping((data["in"], data["out"], heads))
        return {"violated": bool(v), "violations": sorted({k for k, _, _ in v})}
    if data.get("mode") == "lifecycle":
        v = lifecycle_faults()
        return {"violated": bool(v), "violations": sorted({k for k, _, _ in v})}
    return explore.replay(MOD, data)
