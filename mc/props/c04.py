"""C04 — registry is a faithful record. E1."""

from __future__ import annotations

from .. import bfs, core, refmodel as R
from ..harness import Session, canon_gateway, canon_nodes, registry_view
from aiomysensors.exceptions import MissingChildError, MissingNodeError

MOD = __name__


def alphabet(version: str, thorough: bool) -> list:
    evs = []
    for n in (1, 2):
        evs.append([n, 255, 0, 0, 17, "2.0"])
        evs.append([n, 255, 0, 0, 18, "1.5"])
        evs.append([n, 255, 3, 0, 0, "55"])
        evs.append([n, 255, 3, 0, 11, "nm"])
        evs.append([n, 255, 3, 0, 12, "1.1"])
        evs.append([n, 255, 3, 1, 0, "44"])
        if R.is2x(version):
            evs.append([n, 255, 3, 0, 22, "10"])
        for c in (3, 4):
            evs.append([n, c, 0, 0, 6, "d"])
            evs.append([n, c, 1, 0, 0, "a"])
            evs.append([n, c, 1, 0, 0, "b;c"])
            evs.append([n, c, 1, 0, 2, "a"])
            evs.append([n, c, 1, 1, 2, "k"])  # the ack flag is set: still a set message to record
    if thorough:
        evs.append([255, 255, 3, 0, 3, ""])  # id request -> placeholder
        for n in (1, 2):
            evs.append([n, 3, 2, 0, 0, ""])  # req
            evs.append([n, 3, 0, 0, 7, "e"])  # second description/type
            evs.append([n, 255, 4, 0, 0, "x"])  # stream
    return evs


def small_alphabet() -> list:
    """One node, one presented child, one child that never presents itself, a node that never presents itself:
    few events, so that long histories (presentation, report, failure, re-presentation ...) close."""
    return [
        [1, 255, 0, 0, 17, "2.0"],
        [1, 3, 0, 0, 6, "d"],
        [1, 3, 1, 0, 2, "a"],
        [1, 4, 1, 0, 2, "a"],  # child 4 is never presented
        [2, 3, 1, 0, 2, "a"],  # node 2 is never presented
        [1, 3, 0, 0, 7, "e"],
        [1, 255, 3, 0, 0, "55"],
    ]


class Monitor:
    def __init__(self, cfg: dict) -> None:
        self.version = cfg["version"]
        self.thorough = cfg.get("thorough", False)
        self.s = Session(self.version)
        self.model = R.RegistryModel()
        self.nontrivial = False
        self.last_desc = None
        self.eol = cfg.get("eol", "")  # what the transport leaves at the end of a line: nothing, LF, CR LF
        self._alpha = small_alphabet() if cfg.get("small") else alphabet(self.version, self.thorough)
        if cfg.get("small"):
            self._alpha = self._alpha + [[255, 255, 3, 0, 3, ""], [1, 255, 3, 0, 11, "nm"], [1, 255, 3, 0, 12, "1.1"]]
        if cfg.get("parked"):
            # the application has commands parked for node 1 (asleep): received lines must still be yielded literally
            from aiomysensors.model.message import Message

            wt = R.wake_type(self.version)
            for f in ([1, 255, 0, 0, 17, "2.0"], [1, 3, 0, 0, 6, "d"], [1, 255, 3, 0, wt, "5"]):
                self.apply(f)
            self.s.send(Message(1, 3, 1, 0, 2, "parked"))
            self.s.send(Message(1, 255, 3, 0, 13, "x"))
            self._alpha = self._alpha + [[1, 255, 3, 0, wt, "6"], [2, 255, 3, 0, wt, "6"]]

    def events(self) -> list:
        return self._alpha

    def apply(self, ev: list) -> list:
        v = self.version
        f = tuple(ev)
        n, c, cmd, ack, t, p = f
        viols = []
        tag = f"{cmd}/{t if cmd in (3, 4) else '*'}"

        def bad(k, what):
            viols.append((f"C04|{k}|{tag}", f"[{v}] line {R.enc(*f)!r}: {what}", None))

        before = canon_nodes(self.s.gateway.nodes)
        is_id_request = cmd == 3 and t == R.I_ID_REQUEST
        at_write: list = []
        if is_id_request:
            gw = self.s.gateway
            self.s.transport.on_write = lambda line: at_write.append((line, set(gw.nodes)))
        out = self.s.line(R.enc(*f).rstrip("\n") + self.eol)
        self.s.transport.on_write = None
        self.last_desc = out.describe()
        for line, reg in at_write:
            g = line.rstrip("\n").split(";", 5)
            if g[2] == "3" and g[4] == str(R.I_ID_RESPONSE) and R.PLAIN_INT.match(g[5]) and int(g[5]) not in reg:
                bad("no-placeholder-when-id-handed-out", f"the answer {line!r} hands out id {g[5]} at a moment when the registry holds no node {g[5]} (registry {sorted(reg)})")
        exp = ("ok",) if is_id_request else self.model.expect(v, f)
        self.nontrivial = exp[0] != "ok"
        if exp[0] == "ok":
            if out.kind != "yield":
                if is_id_request and out.kind == "raise" and type(out.exc).__name__ == "TooManyNodesError":
                    pass
                else:
                    bad("handled-line-not-yielded", f"expected the message to be yielded, got {out.describe()}")
            else:
                if out.fields != f:
                    bad("yield-wrong-fields", f"yielded {out.fields}, expected {f}")
                if out.consumed != 1:
                    bad("yield-consumed", f"step consumed {out.consumed} lines")
                if is_id_request:
                    ids = [w.rstrip("\n").split(";", 5) for w in out.writes]
                    ids = [x[5] for x in ids if x[2] == "3" and x[4] == str(R.I_ID_RESPONSE)]
                    if len(ids) == 1 and R.PLAIN_INT.match(ids[0]):
                        self.model.placeholder(int(ids[0]))
                    else:
                        bad("id-request-no-single-response", f"writes {out.writes}")
                else:
                    self.model.apply(v, f)
                    if cmd == 0 and c == 255:
                        # "(re)creates that node": a re-presented node must be indistinguishable from the node
                        # the same presentation creates in an empty registry (differential oracle)
                        fresh = Session(v, reset_modules=False)
                        fresh.line(R.enc(*f).rstrip("\n"))
                        a = registry_view(self.s.gateway.nodes).get(n)
                        b = registry_view(fresh.gateway.nodes).get(n)
                        if a != b:
                            diff = {k: (a.get(k), b.get(k)) for k in (a or {}) if (a or {}).get(k) != (b or {}).get(k)} if a and b else (a, b)
                            bad("re-presented-node-not-recreated", f"node {n} after its presentation differs from a freshly created one: {diff}")
        else:
            cls = MissingNodeError if exp[0] == "missing_node" else MissingChildError
            attr = "node_id" if exp[0] == "missing_node" else "child_id"
            if out.kind != "raise" or type(out.exc) is not cls:
                bad(f"{exp[0]}-not-raised", f"expected {cls.__name__}, got {out.describe()}")
            elif getattr(out.exc, attr, None) != exp[1]:
                bad(f"{exp[0]}-names-wrong-id", f"{cls.__name__}.{attr} = {getattr(out.exc, attr, None)!r}, expected {exp[1]} ({out.exc})")
            if canon_nodes(self.s.gateway.nodes) != before:
                bad("failed-message-changed-registry", "registry changed although the message failed")
        diffs = self.model.diff(registry_view(self.s.gateway.nodes))
        if diffs:
            bad("registry-differs", "; ".join(diffs[:3]))
        return viols

    def key(self):
        return (canon_gateway(self.s.gateway), self.model.copy_key())


def make(cfg):
    return Monitor(cfg)


def type_product_job(job):
    """Every child type x value type of the version's tables: present, set, set again, req."""
    version, ctypes = job
    viols = []
    n = 0
    for ct in ctypes:
        for vt in range(0, R.V_MAX[version] + 1):
            n += 1
            mon = Monitor({"version": version})
            hist = [[1, 255, 0, 0, 17, "2.0"], [1, 5, 0, 0, ct, "d" if (ct + vt) % 2 else ""], [1, 5, 1, 0, vt, "v"], [1, 5, 1, 0, vt, "w"], [1, 5, 2, 0, vt, ""], [1, 6, 1, 0, vt, "x"]]
            for i, ev in enumerate(hist):
                v = mon.apply(ev)
                for k, w, _x in v:
                    viols.append((k + "|typeproduct", f"child type {ct} value type {vt}: {w}", {"cfg": {"version": version}, "history": hist[: i + 1], "extra": None}))
                if v:
                    break
    return n, viols


COTENANT_SCRIPT = [
    [1, 255, 0, 0, 17, "2.0"], [1, 3, 0, 0, 6, "d"], [1, 3, 1, 0, 2, "a"], [1, 255, 3, 0, 0, "55"], [1, 255, 3, 0, 11, "nm"], [1, 255, 3, 0, 12, "1.1"],
    [1, 255, 3, 0, 22, "10"], [1, 3, 1, 0, 2, "b"], [1, 255, 3, 0, 32, "500"], [1, 255, 3, 0, 33, "500"], [1, 3, 2, 0, 2, ""], [1, 4, 1, 0, 2, "x"],
    [2, 3, 1, 0, 2, "x"], [255, 255, 3, 0, 3, ""], [0, 255, 3, 0, 14, "ready"], [1, 255, 3, 0, 6, ""], [1, 255, 3, 0, 1, ""], [1, 255, 4, 0, 0, "fw"],
    [1, 255, 0, 0, 18, "2.1"], [1, 3, 0, 0, 7, "e"], [1, 255, 3, 0, 22, "11"],
]


def cotenant_job(job):
    """Two gateways in one process, one after the other, under versions A and B: B must behave exactly as a
    B that has the process to itself (outcomes, writes, registry, whole gateway state) - differential
    oracle, no reference model. Catches handler tables, caches and the like shared across gateways."""
    from aiomysensors.model.message import Message

    from .. import modstate

    va, vb = job

    def session(v):
        s = Session(v, reset_modules=False)
        outs = []
        for f in COTENANT_SCRIPT:
            outs.append(s.line(R.enc(*f).rstrip("\n")).describe())
            if f[4] in (22, 32) and f[2] == 3:
                outs.append(s.send(Message(1, 3, 1, 0, 2, "cmd")).describe())
        return outs, registry_view(s.gateway.nodes), canon_gateway(s.gateway)

    modstate.reset()
    alone = session(vb)
    modstate.reset()
    session(va)
    after = session(vb)
    viols = []
    if alone != after:
        i = next((i for i, (a, b) in enumerate(zip(alone[0], after[0])) if a != b), None)
        if i is not None:
            what = f"step #{i}: alone {alone[0][i]}, after the other gateway {after[0][i]}"
        elif alone[1] != after[1]:
            n = next(k for k in set(alone[1]) | set(after[1]) if alone[1].get(k) != after[1].get(k))
            a, b = alone[1].get(n) or {}, after[1].get(n) or {}
            what = f"registry node {n}: " + "; ".join(f"{k}: alone {a.get(k)!r}, after the other gateway {b.get(k)!r}" for k in sorted(set(a) | set(b)) if a.get(k) != b.get(k))
        else:
            what = "internal gateway state differs"
        viols.append((f"C04|second-gateway-in-process-differs|{vb}", f"a gateway under {vb} running the same {len(COTENANT_SCRIPT)}-line history behaves differently after a gateway under {va} ran in the same process: {what}", {"cotenant": [va, vb]}))
    return viols


def run(ctx: core.Ctx) -> core.Report:
    if ctx.quick:
        plan = [(v, 5 if v in ("1.4", "2.2") else 4) for v in R.VERSIONS]
        thorough = False
    else:
        plan = [("1.4", 6), ("1.5", 5), ("2.0", 5), ("2.1", 5), ("2.2", 6)]
        thorough = True
    tot = {"states": 0, "transitions": 0, "nontrivial_transitions": 0, "per_cfg": [], "samples": [], "violations": []}
    for v, depth in plan:
        res = bfs.search(ctx, MOD, [{"version": v, "thorough": thorough}], max_depth=depth)
        for k in ("states", "transitions", "nontrivial_transitions"):
            tot[k] += res[k]
        tot["per_cfg"] += res["per_cfg"]
        tot["samples"] += res["samples"]
        tot["violations"] += res["violations"]
    pres = bfs.search(ctx, MOD, [{"version": v, "parked": True} for v in (["2.1", "2.2"] if ctx.quick else ["2.0", "2.1", "2.2"])], max_depth=2 if ctx.quick else 3)
    for k in ("states", "transitions", "nontrivial_transitions"):
        tot[k] += pres[k]
    tot["violations"] += pres["violations"]
    sres = bfs.search_many(ctx, MOD, [{"version": v, "small": True, "eol": eol} for v in R.VERSIONS for eol in ("", "\n", "\r\n") if not ctx.quick or eol == "" or v in ("1.4", "2.1")], max_depth=7 if ctx.quick else 12)
    for k in ("states", "transitions", "nontrivial_transitions"):
        tot[k] += sres[k]
    tot["per_cfg"] += sres["per_cfg"]
    tot["violations"] += sres["violations"]
    cres = core.pmap(cotenant_job, [(a, b) for a in R.VERSIONS for b in R.VERSIONS], ctx.workers, chunksize=1)
    tot["violations"] += [core.Violation(k, w, rep) for r in cres for k, w, rep in r]
    tjobs = []
    for v in R.VERSIONS:
        cts = list(range(0, R.S_MAX[v] + 1)) + [R.S_MAX[v] + 1, 99, 255, -1]
        for i in range(0, len(cts), 4):
            tjobs.append((v, cts[i : i + 4]))
    tres = core.pmap(type_product_job, tjobs, ctx.workers, chunksize=1)
    tcount = sum(r[0] for r in tres)
    tot["violations"] += [core.Violation(k, w, rep) for r in tres for k, w, rep in r[1]]
    cov = {
        "states": tot["states"],
        "transitions": tot["transitions"] + 6 * tcount,
        "traces_validated_against_impl": tot["transitions"] + 6 * tcount,
        "type_product_cases": tcount,
        "exhaustive": False,
        "distinct_nontrivial_transitions": tot["nontrivial_transitions"],
        "rule": "all histories up to the stated depth over the alphabet; a 10-event alphabet around one node, lines ending in nothing / LF / CR LF, (presented child, never-presented child, never-presented node, re-presentations) to depth 8/12; every ordered pair of versions as two gateways in one process (the second must behave as if alone); plus a 6-step history for every child type x value type of each version's tables; non-trivial = a step referring to a missing node/child",
        "bounds": {"per_cfg": tot["per_cfg"], "alphabet_size": len(alphabet("2.2", thorough))},
        "samples": ctx.pick(tot["samples"], 3),
    }
    return core.Report(
        level="model_checking",
        coverage=cov,
        violations=tot["violations"],
        assumptions=[
            "depth-bounded: the state space does not close (payload combinations multiply)",
            "attributes of a freshly (re)presented node other than type/version/children are unspecified until next report",
            "version set via the public setter before traffic; version-report histories are C05",
        ],
    )


def replay(data: dict) -> dict:
    if "cotenant" in data:
        v = cotenant_job(tuple(data["cotenant"]))
        return {"violated": bool(v), "violations": [{"key": k, "what": w} for k, w, _ in v]}
    return bfs.replay_history(MOD, data)
