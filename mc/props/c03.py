"""C03 — the receive path raises only library errors, whatever arrives. E1 (states x hostile lines x probe) + byte level."""

from __future__ import annotations

import asyncio
import itertools
from unittest.mock import patch

from aiomysensors.exceptions import AIOMySensorsError
from aiomysensors.gateway import Gateway
from aiomysensors.model.message import Message
from aiomysensors.transport.tcp import TCPTransport

from .. import bfs, core, refmodel as R
from ..harness import Session, canon_gateway, drive, ScriptExhausted

BIG = "12345678901234567890"
PAYLOADS_FULL = ["", "abc", "1e999", "inf", "nan", "-1", "3.7", BIG, "١", " 5", "2.2.0", "junk", "é", "\x00", "1;2", "0x10", "1_0", "-0", "1e3", "٣٫٥"]
LONGP = "y" * 300
PAYLOADS_FULL += [LONGP, "\udc80", "9" * 400, "1" + "0" * 5000, "latest", "dev", "stable", "beta", "0xFF", "0x16", "2024.1", "10.0", "{0}", "%s"]
PAYLOADS_QUICK = ["", "abc", "inf", "nan", "-1", "3.7", "junk", "é", "2.2.0", LONGP, "\udc80", "latest", "0x16", "{0}"]
PROBE = [(9, 255, 0, 0, 17, "2.0"), (9, 3, 0, 0, 3, "d"), (9, 3, 1, 0, 2, "on")]


def hostile_lines(quick: bool) -> list:
    pls = PAYLOADS_QUICK if quick else PAYLOADS_FULL
    out = []
    for t in list(range(-1, 41)) + [255]:
        for p in pls:
            for n in (0, 1, 9):
                out.append(f"{n};255;3;0;{t};{p}")
    for t in range(-1, 8):
        for p in ("", "abc"):
            for n in (0, 1, 9):
                out.append(f"{n};255;4;0;{t};{p}")
    for cmd in (0, 1, 2):
        for t in (0, 17, 18, 26, 36, 40, 99, 255, 1000, -1):
            for c in (3, 4, 255):
                for p in ("", "abc", "é", BIG):
                    for n in (0, 1, 9):
                        out.append(f"{n};{c};{cmd};0;{t};{p}")
    out += ["", "x", "1;2", "1;2;3", "1;2;3;4", "1;2;3;4;5", ";;;;;", "256;0;1;0;0;x", "1;255;1;0;0;x", "1;3;3;0;0;x", "1;3;1;2;0;x",
            "1;3;1;0;x;p", "1;3;5;0;0;p", "-1;3;1;0;0;p", "1;3;1;0;0;p;q;r", " ", ";", "1;3;1;0;" + BIG * 3 + ";p", "١;٣;١;٠;٠;p", "1.0;3;1;0;0;p", "\x00",
            "²;3;1;0;0;p", "1;²;1;0;0;p", "1;3;²;0;0;p", "1;3;1;²;0;p", "1;3;1;0;²;p", "1;255;3;0;①;p", "1;3;¹;0;0;p", "1;3;1;0;٣;p", "1;3;1;0;+2;p", "1;3;1;0; 2;p", "1;3;1;0;0x2;p"]
    return out


def setup_events(version) -> list:
    evs = [["line", "1;255;0;0;17;2.0"], ["line", "1;3;0;0;3;d"], ["line", "1;3;1;0;2;on"], ["reboot", 1], ["send", [1, 3, 1, 0, 2, "off"]]]
    wt = R.wake_type(version) if version else None
    if wt is not None:
        evs.append(["line", f"1;255;3;0;{wt};0"])
    else:
        evs.append(["sleepflag", 1])
    return evs


def apply_setup(s: Session, ev) -> None:
    if ev[0] == "line":
        s.line(ev[1])
    elif ev[0] == "send":
        s.send(Message(*ev[1]))
    elif ev[0] == "reboot":
        n = s.gateway.nodes.get(ev[1])
        if n is not None:
            n.reboot = True
    elif ev[0] == "sleepflag":
        n = s.gateway.nodes.get(ev[1])
        if n is not None:
            n.sleeping = True
    elif ev[0] == "restore":
        # part of the registry comes from a persistence file (real Persistence.load): node 1 with children 0 and 4 only,
        # the gateway node with a version string, a sleeping node 9
        from aiomysensors.model.node import Child, Node
        from aiomysensors.persistence import Persistence

        from .. import pers

        nodes = {0: Node(0, 18, "2.1.1"), 1: Node(1, 17, "2.0", children={0: Child(0, 6, values={0: "21.5"}), 4: Child(4, 3)}, battery_level=50), 9: Node(9, 17, "1.4", sleeping=True)}
        kind, val, vfs = pers.save_nodes(nodes)
        assert kind == "ok", val
        kind, val = pers.run(Persistence(s.gateway.nodes, pers.PATH).load, vfs)
        assert kind == "ok", val
    elif ev[0] == "many":
        # a sleeping node with many parked commands: 12 set keys and 12 internal types
        for c in range(3):
            s.line(f"{ev[1]};{c};0;0;3;")
        for c in range(3):
            for t in range(4):
                s.send(Message(ev[1], c, 1, 0, t, "m"))
        for t in range(5, 17):
            s.send(Message(ev[1], 255, 3, 0, t, "m"))


def build(version, hist) -> Session:
    from aiomysensors.gateway import Config

    # a persistence file is configured (never opened here: any file access would fail loudly under /vfs/)
    s = Session(version, Config(persistence_file="/vfs/never-opened.json"))
    for ev in hist:
        apply_setup(s, ev)
    return s


def states(version, depth: int) -> list:
    """BFS over set-up events; distinct controller states by canonical form."""
    seen = {core.digest(canon_gateway(build(version, []).gateway)): []}
    frontier = [[]]
    for _ in range(depth):
        nxt = []
        for h in frontier:
            for ev in setup_events(version):
                h2 = h + [ev]
                k = core.digest(canon_gateway(build(version, h2).gateway))
                if k not in seen:
                    seen[k] = h2
                    nxt.append(h2)
        frontier = nxt
    out = list(seen.values())
    # a capacity state on top: node 1 known, sleeping, with two dozen parked commands
    wt = R.wake_type(version) if version else None
    base = [["line", "1;255;0;0;17;2.0"], ["line", f"1;255;3;0;{wt};0"] if wt is not None else ["sleepflag", 1], ["many", 1]]
    out.append(base)
    # registries that were (partly) restored from a persistence file, alone and followed by wire traffic
    out.append([["restore"]])
    out.append([["restore"], ["line", "1;3;0;0;3;d"], ["send", [9, 3, 1, 0, 2, "x"]]])
    return out


def check_one(version, hist, line) -> list:
    viols = []

    def bad(k, what):
        f = line.split(";")
        tag = f"{f[2]}/{f[4]}" if len(f) >= 6 and f[2] in ("3", "4") else (f"{f[2]}/*" if len(f) >= 6 else f"fields={len(f)}")
        viols.append((f"C03|{k}|{tag}", f"[version {version}] state {hist} line {line!r}: {what}", {"version": version, "hist": hist, "line": line}))

    s = build(version, hist)
    out = s.line(line)
    if out.kind == "raise":
        if not isinstance(out.exc, AIOMySensorsError):
            bad(f"foreign-exception:{type(out.exc).__name__}", f"listen() raised {type(out.exc).__name__}: {out.exc}")
    elif out.kind != "yield":
        bad("no-outcome", f"step gave {out.kind}")
    # whatever the hostile line created or half-created (accepted or rejected) must not blow up later,
    # well-formed traffic about the same node / child
    fl = line.split(";")
    if len(fl) >= 6 and R.PLAIN_INT.match(fl[0]) and 0 <= int(fl[0]) <= 255 and (fl[2] == "0" or out.kind == "raise"):
        n_ = fl[0]
        c_ = fl[1] if R.PLAIN_INT.match(fl[1]) and 0 <= int(fl[1]) < 255 else "3"
        follow = [f"{n_};{c_};1;0;2;on", f"{n_};{c_};2;0;2;", f"{n_};{c_};1;0;0;1.5", f"{n_};{c_};1;0;99;z",
                  f"{n_};{c_};0;0;3;d", f"{n_};255;3;0;0;50", f"{n_};255;3;0;11;s", f"{n_};255;4;0;0;fw"]
        if n_ == "0":
            follow += ["0;255;3;0;2;2.2", "0;255;3;0;2;2.1.1"]  # the gateway then reports its version
        if fl[2] == "0":
            # ... and the node goes to sleep, the application parks a command for it, and it wakes by either announcement
            follow += [f"{n_};255;3;0;32;500", f"{n_};255;3;0;22;1500", ("send", (int(n_), 3, 1, 0, 2, "parked")), f"{n_};255;3;0;22;1600", f"{n_};255;3;0;32;600", f"{n_};255;3;0;22;1700"]
        if fl[2] == "0":
            # a presentation (whatever it carried as type, version string or description): then every
            # internal message type from that node with an ordinary payload
            follow += [f"{n_};255;3;0;{t};{p}" for t in range(0, 34) if t not in (0, 11) for p in (("1500",) if t != 2 else ("2.1",))]
        for fline in follow:
            if isinstance(fline, tuple):
                so = s.send(Message(*fline[1]))
                if so.kind == "raise" and not isinstance(so.exc, AIOMySensorsError):
                    bad(f"foreign-exception-later:{type(so.exc).__name__}", f"{out.kind}; then send{fline[1]} raised {type(so.exc).__name__}: {so.exc}")
                    break
                continue
            o = s.line(fline)
            if o.kind == "raise" and not isinstance(o.exc, AIOMySensorsError):
                bad(f"foreign-exception-later:{type(o.exc).__name__}", f"{out.kind}; then the later line {fline!r} raised {type(o.exc).__name__}: {o.exc}")
                break
    # the gateway must remain usable
    for f in PROBE:
        o = s.line(R.enc(*f).rstrip("\n"))
        if o.kind != "yield" or o.fields != f:
            bad("unusable-after", f"after that line the well-formed line {R.enc(*f)!r} gave {o.describe()}")
            break
    else:
        node = s.gateway.nodes.get(9)
        if node is None or 3 not in node.children or node.children[3].values.get(2) != "on":
            bad("unusable-after", "probe messages were yielded but are not in the registry")
    return viols


CAPACITY_LINES = ["255;255;3;0;3;", "1;255;3;0;3;", "0;255;3;0;3;", "255;255;3;0;3;x", "254;255;0;0;17;2.0", "0;255;0;0;18;2.0", "255;255;0;0;17;2.0",
                  "200;3;1;0;2;on", "1;255;3;0;0;50", "255;255;3;0;4;7"]


def capacity_case(j) -> list:
    """Registries at and next to capacity, filled by id requests or by presentations, with and without the
    gateway's own node 0: id requests and neighbouring traffic must give a message or a library error."""
    version, how, lo, hi = j
    viols = []
    s = Session(version)
    for n in range(lo, hi + 1):
        o = s.line("255;255;3;0;3;" if how == "idreq" else f"{n};255;0;0;17;2.0")
        if o.kind == "raise" and not isinstance(o.exc, AIOMySensorsError):
            viols.append((f"C03|capacity-foreign-exception:{type(o.exc).__name__}|3/3", f"[version {version}] filling the registry ({how} #{n - lo + 1} of {hi - lo + 1}) raised {type(o.exc).__name__}: {o.exc}", {"capacity": list(j)}))
            return viols
    for rnd in range(3):
        for line in CAPACITY_LINES:
            o = s.line(line)
            if o.kind == "raise" and not isinstance(o.exc, AIOMySensorsError):
                viols.append((f"C03|capacity-foreign-exception:{type(o.exc).__name__}|{line.split(';')[2]}/{line.split(';')[4]}", f"[version {version}] registry filled by {how} with ids {lo}..{hi} ({len(s.gateway.nodes)} nodes), round {rnd}: line {line!r} raised {type(o.exc).__name__}: {o.exc}", {"capacity": list(j)}))
                return viols
    for f in PROBE:
        o = s.line(R.enc(*f).rstrip("\n"))
        if o.kind != "yield" or o.fields != f:
            viols.append(("C03|capacity-unusable-after|*", f"[version {version}] registry filled by {how} with ids {lo}..{hi}: afterwards the well-formed line {R.enc(*f)!r} gave {o.describe()}", {"capacity": list(j)}))
            break
    return viols


def timeout_case(kind: str) -> list:
    """The application waits for the next message with a timeout (asyncio.wait_for): the wait is cancelled while
    nothing has arrived. The wait must end as a cancellation (not as some other exception) and the gateway stays
    usable: the next well-formed line is processed normally. Per transport kind."""
    from unittest.mock import patch as _patch

    from aiomysensors.transport.mqtt import MQTTClient
    from aiomysensors.transport.serial import SerialTransport

    from ..harness import AsyncScriptTransport
    from ..mqttfake import FakeClient
    from ..vloop import VLoop

    viols = []

    def bad(k, what):
        viols.append((f"C03|timeout-{k}|{kind}", f"[{kind}] {what}", {"timeout_kind": kind}))

    loop = VLoop()
    loop.enter()
    patches = []
    try:
        feed = None
        if kind == "script":
            t = AsyncScriptTransport(loop)
            t.sync = False
            feed = lambda line: t.deliver(line + "\n")  # noqa: E731
        elif kind in ("tcp", "serial"):
            reader = asyncio.StreamReader(loop=loop)

            async def factory(*a, **kw):
                return reader, FakeWriter()

            p = _patch("aiomysensors.transport.tcp.asyncio.open_connection" if kind == "tcp" else "aiomysensors.transport.serial.open_serial_connection", factory)
            p.start()
            patches.append(p)
            t = TCPTransport("h") if kind == "tcp" else SerialTransport("p")
            feed = lambda line: reader.feed_data(line.encode() + b"\n")  # noqa: E731
        else:
            p = _patch("aiomysensors.transport.mqtt.AsyncioClient", FakeClient)
            p.start()
            patches.append(p)
            FakeClient.instances.clear()
            FakeClient.plan = {}
            FakeClient.suspend = set()
            t = MQTTClient("b", 1883, in_prefix="i", out_prefix="o")

            def feed(line):
                f = line.split(";", 5)
                FakeClient.instances[-1].deliver("i/" + "/".join(f[:5]), f[5].encode())

        ct = loop.create_task(t.connect())
        loop.run_ready()
        if not ct.done() or ct.exception() is not None:
            raise core.HarnessError(f"connect of the {kind} transport failed in the harness: {ct!r}")
        gw = Gateway(t)
        gw.protocol_version = "2.2"
        for rnd in range(2):
            agen = gw.listen()
            step = loop.create_task(agen.__anext__())
            loop.run_ready()
            if step.done():
                bad("premature", f"a wait on a silent transport ended by itself: {step!r}")
                return viols
            step.cancel()
            loop.run_ready()
            if not step.done():
                bad("stuck", "the cancelled wait never finished")
                return viols
            if not step.cancelled():
                exc = step.exception()
                bad(f"foreign-exception:{type(exc).__name__}", f"round {rnd}: a wait for the next message that times out on a silent transport ended with {type(exc).__name__}: {exc} instead of the cancellation")
                return viols
            for f in PROBE:
                agen = gw.listen()
                step = loop.create_task(agen.__anext__())
                loop.run_ready()
                feed(R.enc(*f).rstrip("\n"))
                loop.run_ready()
                ok = step.done() and not step.cancelled() and step.exception() is None
                if not ok or (step.result().node_id, step.result().payload) != (f[0], f[5]):
                    bad("unusable-after", f"round {rnd}: after the timed-out wait the well-formed line {R.enc(*f)!r} gave {step!r}")
                    if not step.done():
                        step.cancel()
                        loop.run_ready()
                    return viols
    finally:
        for p in patches:
            p.stop()
        loop.shutdown()
    return viols


def job(j):
    version, hist, lines = j
    viols = []
    for line in lines:
        viols += check_one(version, hist, line)
    return len(lines), viols


# -- byte level -----------------------------------------------------------------

ALPHA = [b"1", b";", b"\n", b"\xc3", b"\xa9", b"\xff"]


class FakeWriter:
    def __init__(self) -> None:
        self.data = b""

    def write(self, b: bytes) -> None:
        self.data += b

    async def drain(self) -> None:
        return None

    def close(self) -> None:
        pass

    async def wait_closed(self) -> None:
        return None


_LOOP = None


def check_bytes(data: bytes) -> list:
    global _LOOP
    viols = []
    if _LOOP is None:
        from ..harness import drive_loop

        _LOOP = drive_loop()

    def bad(k, what):
        viols.append((f"C03|bytes-{k}", f"byte stream {data!r}: {what}", {"bytes": data.hex()}))

    reader = asyncio.StreamReader(limit=64, loop=_LOOP)
    reader.feed_data(data)
    reader.feed_eof()
    writer = FakeWriter()

    async def open_connection(**kwargs):
        return reader, writer

    transport = TCPTransport("h")
    with patch("aiomysensors.transport.tcp.asyncio.open_connection", open_connection):
        drive(transport.connect())
    gw = Gateway(transport)
    gw.protocol_version = "2.2"
    steps = 0
    agen = None
    while steps < len(data) + 3:
        steps += 1
        if agen is None:
            agen = gw.listen()
        try:
            drive(agen.__anext__())
        except AIOMySensorsError:
            agen = None
            if reader.at_eof():
                break
        except core.HarnessError:
            raise
        except BaseException as exc:  # noqa: BLE001
            agen = None
            bad(f"foreign-exception:{type(exc).__name__}", f"listen() raised {type(exc).__name__}: {exc}")
            if reader.at_eof():
                break
    else:
        bad("no-progress", "stream not consumed after len+3 steps")
    return viols


HOSTILE_BYTES = [b"\xb0", b"\xff\xfe", b"\xc3", b"\xc3\xa9", b"\xed\xa0\x80", b"\x00", b"21\xb0C", b"\x80abc", b"\xf0\x9f\x98\x80"]


def byte_histories(version) -> list:
    """Multi-line byte streams: a hostile payload lands in each slot that is stored, then lines that echo it."""
    wt = R.wake_type(version) if version else None
    out = []
    setup = [b"1;255;0;0;17;2.0", b"1;3;0;0;3;d"]
    tails = [b"1;3;2;0;2;", b"1;255;3;0;6;", b"1;3;1;0;2;ok", b"255;255;3;0;3;"]
    if wt is not None:
        tails = [b"1;255;3;0;%d;0" % wt] + tails
    for hb in HOSTILE_BYTES:
        slots = [
            [b"1;3;1;0;2;" + hb],  # stored value, echoed by the req below
            [b"1;3;0;0;3;" + hb],  # child description
            [b"1;255;3;0;11;" + hb],  # sketch name
            [b"1;255;3;0;0;" + hb],  # battery
            [b"2;255;0;0;17;" + hb],  # node version string
            [b"0;255;3;0;2;" + hb],  # gateway version reply
            [hb + b";3;1;0;2;x"],  # node id field
        ]
        for slot in slots:
            out.append(b"\n".join(setup + slot + tails) + b"\n")
    return out


def check_byte_history(version, data: bytes) -> list:
    """Like check_bytes but with a chosen version (None = unknown) and a final usability probe."""
    global _LOOP
    viols = []
    if _LOOP is None:
        from ..harness import drive_loop

        _LOOP = drive_loop()

    def bad(k, what):
        viols.append((f"C03|bytes-history-{k}", f"[version {version}] byte stream {data!r}: {what}", {"bytes_history": data.hex(), "version": version}))

    probe = b"".join(R.enc(*f).encode() for f in PROBE)
    reader = asyncio.StreamReader(limit=4096, loop=_LOOP)
    reader.feed_data(data + probe)
    reader.feed_eof()
    writer = FakeWriter()

    async def open_connection(**kwargs):
        return reader, writer

    transport = TCPTransport("h")
    with patch("aiomysensors.transport.tcp.asyncio.open_connection", open_connection):
        drive(transport.connect())
    gw = Gateway(transport)
    if version is not None:
        gw.protocol_version = version
    agen = None
    yielded = []
    nlines = data.count(b"\n") + len(PROBE)
    for _ in range(nlines + 2):
        if agen is None:
            agen = gw.listen()
        try:
            m = drive(agen.__anext__())
            yielded.append((m.node_id, m.child_id, m.command, m.ack, m.message_type, m.payload))
        except AIOMySensorsError:
            agen = None
            if reader.at_eof():
                break
        except core.HarnessError:
            raise
        except BaseException as exc:  # noqa: BLE001
            agen = None
            bad(f"foreign-exception:{type(exc).__name__}", f"listen() raised {type(exc).__name__}: {exc}")
            if reader.at_eof():
                break
    if yielded[-len(PROBE):] != list(PROBE):
        bad("unusable-after", f"the well-formed lines at the end of the stream were not processed normally; yielded tail {yielded[-3:]}")
    return viols


def job_byte_histories(j):
    version, streams = j
    viols = []
    for d in streams:
        viols += check_byte_history(version, d)
    return len(streams), viols


def job_bytes(chunk):
    viols = []
    for b in chunk:
        viols += check_bytes(b)
    return len(chunk), viols


def run(ctx: core.Ctx) -> core.Report:
    versions = [None, "1.4", "2.0", "2.2"] if ctx.quick else [None, *R.VERSIONS]
    lines = hostile_lines(ctx.quick)
    jobs = []
    nstates = 0
    sample_states = []
    for v in versions:
        sts = states(v, 3 if ctx.quick else 4)
        nstates += len(sts)
        sample_states.append({"version": v, "state_history": sts[-1]})
        for h in sts:
            # restored registries differ from wire-built ones in their nodes and children, not in how internal messages are
            # parsed: quick delivers the presentation / set / req part of the alphabet (and a sample of the rest) there
            ls = lines if not (ctx.quick and h and h[0] == ["restore"]) else [l for k, l in enumerate(lines) if l.split(";")[2:3] in (["0"], ["1"], ["2"]) or len(l.split(";")) < 6 or k % 11 == 0]
            for i in range(0, len(ls), 400):
                jobs.append((v, h, ls[i : i + 400]))
    res = core.pmap(job, jobs, ctx.workers, chunksize=1)
    L = 4 if ctx.quick else 5
    streams = [b"".join(t) for n in range(L + 1) for t in itertools.product(ALPHA, repeat=n)]
    streams += [b"1;1;1;0;2;\xff\xfe\n1;255;0;0;17;2.0\n", b"1;255;3;0;0;\xc3\n", b"\xff\xfe\n" * 3]
    bchunks = [streams[i : i + 300] for i in range(0, len(streams), 300)]
    bres = core.pmap(job_bytes, bchunks, ctx.workers, chunksize=1)
    hjobs = [(v, byte_histories(v)) for v in [None, *R.VERSIONS]]
    bres += core.pmap(job_byte_histories, hjobs, ctx.workers, chunksize=1)
    cjobs = [(v, how, lo, hi) for v in versions for how, lo, hi in (("idreq", 1, 254), ("idreq", 1, 253), ("present", 1, 254), ("present", 0, 254), ("present", 0, 253), ("present", 2, 254), ("present", 0, 255))]
    cres = core.pmap(capacity_case, cjobs, ctx.workers, chunksize=1)
    cres += core.pmap(timeout_case, ["script", "tcp", "serial", "mqtt"], ctx.workers, chunksize=1)
    total = sum(r[0] for r in res)
    btotal = sum(r[0] for r in bres)
    viols = [core.Violation(k, w, rep) for r in res + bres for k, w, rep in r[1]]
    viols += [core.Violation(k, w, rep) for r in cres for k, w, rep in r]
    cov = {
        "states": nstates,
        "transitions": total * (1 + len(PROBE)) + btotal,
        "traces_validated_against_impl": total + btotal,
        "exhaustive": True,
        "hostile_lines": len(lines),
        "byte_streams": btotal,
        "capacity_histories": len(cjobs),
        "rule": "controller states = all distinct states reachable in <= 2/3 set-up events (BFS, canonical form) per version incl. unknown; in every state every line of the hostile alphabet is delivered to a real Gateway.listen step, followed (for presentations and rejected lines) by well-formed traffic about the same node incl. every internal type, and by a 3-line usability probe; registries filled to and next to capacity (by id requests / presentations, with and without node 0) x id requests and neighbouring lines; a wait for the next message cancelled (timed out) on a silent script / TCP / serial / MQTT transport, twice, each followed by the probe; byte level: every byte string up to length L over 6 byte values through real StreamReader -> TCPTransport.read -> Gateway.listen; plus multi-line byte histories with 9 hostile byte payloads in 7 stored/echoed slots followed by lines that echo them (req, config, wake, id request) and the probe, per version",
        "bounds": {"versions": versions, "setup_depth": 3 if ctx.quick else 4, "byte_len": L},
        "samples": sample_states[:2] + [{"line": lines[ctx.seed % len(lines)]}, {"bytes": streams[-4].hex()}],
    }
    return core.Report(
        level="model_checking",
        coverage=cov,
        violations=viols,
        assumptions=["hostile alphabet: internal types -1..40,255 x payload list x nodes 0/1/9; other commands on a smaller grid", "byte streams fully buffered before reading (chunkings are C17)"],
    )


def replay(data: dict) -> dict:
    if "timeout_kind" in data:
        v = timeout_case(data["timeout_kind"])
    elif "capacity" in data:
        v = capacity_case(tuple(data["capacity"]))
    elif "bytes_history" in data:
        v = check_byte_history(data["version"], bytes.fromhex(data["bytes_history"]))
    elif "bytes" in data:
        v = check_bytes(bytes.fromhex(data["bytes"]))
    else:
        v = check_one(data["version"], data["hist"], data["line"])
    return {"violated": bool(v), "violations": [{"key": k, "what": w} for k, w, _ in v]}
