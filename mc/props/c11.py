"""C11 — node ids handed out are fresh, in range, never twice. E1."""

from __future__ import annotations

import itertools

from .. import bfs, core, refmodel as R
from ..harness import Session, canon_gateway, canon_nodes

MOD = __name__
U = [0, 1, 2, 3, 253, 254, 255]


class Monitor:
    def __init__(self, cfg: dict) -> None:
        self.version = cfg["version"]  # None = unknown
        self.pv = self.version or "1.4"
        restore = cfg.get("restore", [])
        self.cfg_restore = restore
        if restore:
            # part of the registry comes from a persistence file, loaded by the real Persistence.load
            from aiomysensors.gateway import Config
            from aiomysensors.model.node import Node

            from .. import fsshim, pers

            kind, val, vfs = pers.save_nodes({n: Node(n, 17, self.pv) for n in restore})
            assert kind == "ok", val
            self.s = Session(self.version, Config(persistence_file=pers.PATH))
            kind, val = pers.run(self.s.gateway.persistence.load, vfs)
            assert kind == "ok", val
            assert sorted(self.s.gateway.nodes) == sorted(restore)
            self.vfs = vfs
        else:
            self.s = Session(self.version)
        for n in cfg["registry"]:
            if n == 0 and self.version is None:
                raise ValueError("node 0 presentation would set the version")
            out = self.s.line(f"{n};255;0;0;17;{self.pv}")
            assert out.kind == "yield", out.describe()
        self.handed: list[int] = []
        self.nontrivial = False
        self.last_desc = None
        self.present_pool = [u for u in cfg.get("present", [2, 254]) if not (u == 0 and self.version is None)]

    def events(self) -> list:
        evs = [["idreq", 255, 255], ["idreq", 255, 7], ["idreq-delivered-then-error", 255, 255]]
        reg = sorted(self.s.gateway.nodes)
        top = reg[-1] if reg else 0
        # a request that carries a registered node's own id (a node asking for a new id), asleep or not
        if reg and reg[0] != 255:
            evs.append(["idreq", reg[0], 255])
            if R.is2x(self.pv) and reg[0] != 0:
                evs.append(["sleep", reg[0]])
        # a stray message from a node that is not registered: the id just above the highest one, and 254
        for stray in sorted({top + 1, 254}):
            if 0 < stray <= 254 and stray not in self.s.gateway.nodes:
                evs.append(["stray", stray])
        if self.handed:
            evs.append(["present-last"])
        for u in self.present_pool:
            evs.append(["present", u])
        if self.cfg_restore:
            # the file (not saved since) is loaded again: explicitly, and by entering and leaving the context
            evs.append(["reload"])
            evs.append(["reenter"])
        return evs

    def apply(self, ev: list) -> list:
        s = self.s
        gw = s.gateway
        viols = []

        def bad(k, what):
            viols.append((f"C11|{k}", f"[version {self.version}] registry {sorted(before)[:6]}..(n={len(before)}, restored from file: {self.cfg_restore}) {ev}: {what}", None))

        before = set(gw.nodes)
        before_canon = canon_nodes(gw.nodes)
        if ev[0] == "idreq-delivered-then-error":
            # the answer reaches the node, then the transport reports an error: that id IS handed out
            s.transport.fail_writes = 1
            s.transport.fail_after_delivery = True
            out = s.line(f"{ev[1]};{ev[2]};3;0;3;")
            s.transport.fail_writes = 0
            s.transport.fail_after_delivery = False
            self.last_desc = out.describe()
            self.nontrivial = True
            for w in out.writes:
                f = w.rstrip("\n").split(";", 5)
                if f[2] == "3" and f[4] == "4" and R.PLAIN_INT.match(f[5]):
                    nid = int(f[5])
                    if nid in before:
                        bad("id-not-fresh", f"id {nid} was already in the registry")
                    if nid in self.handed:
                        bad("id-handed-twice", f"id {nid} handed out twice")
                    self.handed.append(nid)
        elif ev[0] == "idreq":
            rn, rc = ev[1], ev[2]
            seen_at_write = []

            def on_write(line: str) -> None:
                seen_at_write.append((line, set(gw.nodes)))

            s.transport.on_write = on_write
            out = s.line(f"{rn};{rc};3;0;3;")
            s.transport.on_write = None
            self.last_desc = out.describe()
            self.nontrivial = True
            writes = [w for w in out.writes if w != "0;255;3;0;2;\n" and not (w.split(";")[2] == "3" and w.split(";")[4] == "19")]  # version query (C06) / presentation request (C10) tolerated
            if out.kind == "yield":
                resp = [w for w in writes if w.split(";")[2:5] == ["3", "0", "4"] or (w.split(";")[2] == "3" and w.split(";")[4] == "4")]
                if len(writes) != 1 or len(resp) != 1:
                    bad("not-one-response", f"writes {out.writes}")
                else:
                    f = resp[0].rstrip("\n").split(";", 5)
                    if [f[0], f[1]] != [str(rn), str(rc)]:
                        bad("response-misaddressed", f"response {resp[0]!r} not addressed like the request")
                    if not R.PLAIN_INT.match(f[5]):
                        bad("payload-not-id", f"response payload {f[5]!r}")
                    else:
                        nid = int(f[5])
                        if not 1 <= nid <= 254:
                            bad("id-out-of-range", f"id {nid} handed out")
                        if nid in before:
                            bad("id-not-fresh", f"id {nid} was already in the registry")
                        if nid in self.handed:
                            bad("id-handed-twice", f"id {nid} handed out twice")
                        at = [reg for l, reg in seen_at_write if l == resp[0]]
                        if not at or nid not in at[0]:
                            bad("not-registered-before-answer", f"id {nid} not in the registry when the answer was written")
                        if nid not in gw.nodes:
                            bad("not-registered", f"id {nid} not in the registry after the step")
                        elif gw.nodes[nid].children:
                            bad("placeholder-has-children", f"placeholder {nid} has children")
                        self.handed.append(nid)
                        if set(gw.nodes) - before - {nid}:
                            bad("extra-nodes", f"registry gained {sorted(set(gw.nodes) - before - {nid})}")
            elif out.kind == "raise" and type(out.exc).__name__ == "TooManyNodesError":
                if writes:
                    bad("error-but-wrote", f"too-many-nodes raised but wrote {writes}")
                if canon_nodes(gw.nodes) != before_canon:
                    bad("error-changed-registry", "too-many-nodes raised but the registry changed")
                top = max(before) if before else 0
                if top < 254:
                    bad("error-while-free", f"too-many-nodes raised although ids above the highest registered id {top} are free")
            else:
                bad("other-outcome", f"id request gave {out.describe()}")
        elif ev[0] in ("reload", "reenter"):
            from .. import pers

            self.nontrivial = False
            if ev[0] == "reload":
                k1, v1 = pers.run(gw.persistence.load, self.vfs)
                k2, v2 = "skipped", None
            else:
                k1, v1 = pers.run(gw.__aenter__, self.vfs)
                k2, v2 = pers.run(lambda: gw.__aexit__(None, None, None), self.vfs) if k1 == "ok" else ("skipped", None)
                s._agen = None
            self.last_desc = {ev[0]: [k1, type(v1).__name__, k2, type(v2).__name__]}
            if k1 != "ok" or k2 not in ("ok", "skipped"):
                bad("reload-failed", f"{ev[0]} gave {k1} {v1!r} / {k2} {v2!r}")
        elif ev[0] == "sleep":
            out = s.line(f"{ev[1]};255;3;0;{R.wake_type(self.pv)};0")
            self.last_desc = out.describe()
            self.nontrivial = False
        elif ev[0] == "stray":
            out = s.line(f"{ev[1]};3;1;0;2;x")
            self.last_desc = out.describe()
            self.nontrivial = False
            if out.kind != "raise" or type(out.exc).__name__ != "MissingNodeError":
                bad("stray-not-rejected", f"a set from the unregistered node {ev[1]} gave {out.describe()}")
            if canon_nodes(gw.nodes) != before_canon:
                bad("stray-changed-registry", f"a set from the unregistered node {ev[1]} changed the registry")
        else:
            n = self.handed[-1] if ev[0] == "present-last" else ev[1]
            out = s.line(f"{n};255;0;0;17;{self.pv}")
            self.last_desc = out.describe()
            self.nontrivial = False
            if out.kind != "yield":
                bad("presentation-failed", f"{out.describe()}")
        return viols

    def key(self):
        return (canon_gateway(self.s.gateway), tuple(self.handed))


def make(cfg):
    return Monitor(cfg)


class RaceScenario:
    """Two consumers of listen() on one gateway, each handling one id request, while a third line (a
    presentation) may arrive; every transport write is a suspension point that completes ok or fails.
    Afterwards two more requests are handled sequentially. Every id whose answer was written successfully
    must be fresh, in range, registered, and different from every other one."""

    horizon = 3000

    def __init__(self, cfg: dict, loop) -> None:
        from aiomysensors.gateway import Gateway

        from ..harness import AsyncScriptTransport, drive

        self.cfg = cfg
        self.loop = loop
        self.t = AsyncScriptTransport(loop)
        self.gw = Gateway(self.t)
        self.gw.protocol_version = cfg["version"]
        agen = self.gw.listen()
        for n in cfg["registry"]:
            self.t.lines.append(f"{n};255;0;0;17;{cfg['version']}")
            drive(agen.__anext__())
        self.before = set(self.gw.nodes)
        self.t.sync = False
        self.lines = [f"255;{c};3;0;3;" for c in (255, 7)] + ([f"{cfg['present']};255;0;0;17;{cfg['version']}"] if cfg.get("present") else [])
        self.delivered = 0
        self.fail_budget = cfg.get("faults", 1)
        self.results: list = []
        self.nontrivial = False
        self.tasks = [loop.create_task(self._consume(i)) for i in range(len(self.lines))]

    async def _consume(self, i: int):
        agen = self.gw.listen()
        try:
            m = await agen.__anext__()
            self.results.append(("ok", i, m.message_type))
        except Exception as exc:  # noqa: BLE001
            self.results.append(("raise", i, type(exc).__name__))
        finally:
            await agen.aclose()

    def enabled(self) -> list:
        evs = []
        if self.delivered < len(self.lines) and self.t.pending_reads:
            evs.append("line")
        for i in range(len(self.t.pending_writes)):
            evs.append(f"write:{i}:ok")
            if self.fail_budget > 0:
                evs.append(f"write:{i}:fail")
        return evs

    def fire(self, label: str) -> None:
        if label == "line":
            self.t.deliver(self.lines[self.delivered])
            self.delivered += 1
        else:
            _, i, how = label.split(":")
            if len(self.t.pending_writes) > 1:
                self.nontrivial = True  # two answers in flight
            if how == "fail":
                self.fail_budget -= 1
                self.nontrivial = True
            self.t.complete_write(int(i), ok=(how == "ok"))

    def finished(self) -> bool:
        return all(t.done() for t in self.tasks) and self.loop.ready_count() == 0

    def verdict(self, hang: bool) -> list:
        from aiomysensors.exceptions import AIOMySensorsError

        from ..harness import drive

        viols = []

        def bad(k, what):
            viols.append((f"C11|race-{k}", f"registry {sorted(self.before)}, lines {self.lines}: {what}", None))

        if hang:
            bad("hang", f"a consumer is stuck: results {self.results}")
            return viols
        for r in self.results:
            if r[0] == "raise" and r[2] not in ("InjectedWriteFault", "TooManyNodesError"):
                bad(f"foreign-exception:{r[2]}", f"a consumer raised {r[2]}")
        # two more requests, sequentially, fault-free
        self.t.sync = True
        agen = self.gw.listen()
        for _ in range(2):
            self.t.lines.append("255;255;3;0;3;")
            try:
                drive(agen.__anext__())
            except AIOMySensorsError:
                agen = self.gw.listen()
        answered = []
        for line in self.t.done:
            f = line.rstrip("\n").split(";", 5)
            if f[2] == "3" and f[4] == "4" and R.PLAIN_INT.match(f[5]):
                answered.append(int(f[5]))
        self.answered = answered
        for i in answered:
            if not 1 <= i <= 254:
                bad("id-out-of-range", f"id {i} answered")
            if i in self.before:
                bad("id-not-fresh", f"id {i} answered although it was registered before: {sorted(self.before)}")
            if i not in self.gw.nodes:
                bad("id-not-registered", f"id {i} was answered but is not in the registry {sorted(self.gw.nodes)}")
        dup = sorted({i for i in answered if answered.count(i) > 1})
        if dup:
            bad("id-handed-twice", f"ids {dup} were answered more than once: answers in order {answered}")
        if self.cfg.get("present") and self.cfg["present"] in answered:
            bad("id-not-fresh", f"id {self.cfg['present']} was answered and is also a presented node")
        return viols

    def observation(self):
        return {"results": sorted(map(list, self.results)), "answered": getattr(self, "answered", None), "done": list(self.t.done)}


def make_scenario(cfg, loop):
    return RaceScenario(cfg, loop)


def registries(quick: bool) -> list:
    regs = []
    for r in range(len(U) + 1):
        for sub in itertools.combinations(U, r):
            regs.append(list(sub))
    regs += [[17], [200], list(range(1, 254)), list(range(0, 255)), list(range(1, 255)), list(range(1, 253))]
    return regs


def run(ctx: core.Ctx) -> core.Report:
    versions = [None, "1.4", "2.2"] if ctx.quick else [None, *R.VERSIONS]
    depth = 3 if ctx.quick else 5
    cfgs = []
    for v in versions:
        for reg in registries(ctx.quick):
            if v is None and 0 in reg:
                continue
            cfgs.append({"version": v, "registry": reg, "present": [2, 254, 100] if not ctx.quick else [2, 254]})
    for v in versions:
        for reg, rest in (([], [1]), ([], [1, 2, 3]), ([2], [5]), ([7], [1, 200]), ([], [254]), ([1], [253]), ([], list(range(1, 254))), ([3], [0, 9])):
            if v is None and 0 in reg + rest:
                continue
            cfgs.append({"version": v, "registry": reg, "restore": rest, "present": [2, 254]})
    res = bfs.search_many(ctx, MOD, cfgs, depth)
    from .. import explore

    rcfgs = [{"version": "2.2", "registry": reg, "present": pr, "faults": 1} for reg in ([], [1], [0, 1], [253]) for pr in (None, 200)]
    rres = explore.explore(ctx, MOD, rcfgs, 2 if ctx.quick else 4)
    res["violations"] += rres["violations"]
    res["transitions"] += rres["executions"]
    cov = {
        "states": res["states"],
        "transitions": res["transitions"],
        "traces_validated_against_impl": res["transitions"],
        "exhaustive": False,
        "distinct_nontrivial_transitions": res["nontrivial_transitions"],
        "rule": f"{len(cfgs)} initial registries (every subset of {U} + dense/sparse shapes) x versions {versions}; all event sequences to depth {depth}; non-trivial = id request steps; plus schedule exploration (two concurrent listen() consumers, suspended and failing answers, <= 2/4 early firings) of 8 scenarios",
        "bounds": {"depth": depth, "initial_registries": len(cfgs)},
        "samples": ctx.pick(res["samples"], 3),
    }
    return core.Report(
        level="model_checking",
        coverage=cov,
        violations=res["violations"],
        assumptions=["registries are built by real node presentations", "depth-bounded histories per initial registry"],
    )


def replay(data: dict) -> dict:
    if "choices" in data:
        from .. import explore

        return explore.replay(MOD, data)
    return bfs.replay_history(MOD, data)
