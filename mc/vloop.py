"""E2: a virtual asyncio event loop the explorer drives by hand.

VLoop subclasses asyncio.BaseEventLoop: virtual clock, no selector, no threads. Stock Task, Future,
Queue, asyncio.wait, asyncio.sleep, StreamReader/StreamWriter and aiofiles run unmodified on it.
run_in_executor files a job the explorer completes when it chooses.
"""

from __future__ import annotations

import asyncio
import gc
import heapq
import threading
from asyncio import events

from .core import HarnessError


class Job:
    """An executor job (one blocking file operation of aiofiles)."""

    __slots__ = ("fut", "func", "args", "seq", "label")

    def __init__(self, fut, func, args, seq):
        self.fut = fut
        self.func = func
        self.args = args
        self.seq = seq
        f = func
        while hasattr(f, "func"):  # functools.partial
            f = f.func
        self.label = getattr(f, "__name__", repr(f))


class VLoop(asyncio.BaseEventLoop):
    def __init__(self) -> None:
        super().__init__()
        self._vtime = 0.0
        self.jobs: list[Job] = []
        self._job_seq = 0
        self.exc_records: list[dict] = []
        self.set_exception_handler(self._record_exc)
        self._entered = False

    # -- BaseEventLoop plumbing ---------------------------------------------
    def time(self) -> float:
        return self._vtime

    def _process_events(self, event_list) -> None:  # pragma: no cover
        pass

    def _write_to_self(self) -> None:
        pass

    def call_soon_threadsafe(self, callback, *args, context=None):
        return self.call_soon(callback, *args, context=context)

    def run_in_executor(self, executor, func, *args):
        fut = self.create_future()
        self._job_seq += 1
        self.jobs.append(Job(fut, func, args, self._job_seq))
        return fut

    def _record_exc(self, loop, context) -> None:
        self.exc_records.append(context)

    # -- manual driving --------------------------------------------------------
    def enter(self) -> None:
        if self._entered:
            return
        self._entered = True
        self._thread_id = threading.get_ident()
        events._set_running_loop(self)

    def leave(self) -> None:
        if not self._entered:
            return
        self._entered = False
        self._thread_id = None
        events._set_running_loop(None)

    def ready_count(self) -> int:
        return sum(1 for h in self._ready if not h._cancelled)

    def step(self) -> bool:
        """Run the handle at the head of the ready queue (asyncio's FIFO order is kept)."""
        while self._ready:
            h = self._ready.popleft()
            if h._cancelled:
                continue
            h._run()
            return True
        return False

    def run_ready(self, limit: int = 100000) -> None:
        n = 0
        while self.step():
            n += 1
            if n > limit:
                raise HarnessError("ready queue does not drain (livelock)")

    def next_timer(self):
        while self._scheduled and self._scheduled[0]._cancelled:
            h = heapq.heappop(self._scheduled)
            h._scheduled = False
            self._timer_cancelled_count = max(0, self._timer_cancelled_count - 1)
        return self._scheduled[0] if self._scheduled else None

    def advance(self) -> float | None:
        """Advance the clock to the next timer deadline and make the due timers ready."""
        t = self.next_timer()
        if t is None:
            return None
        when = t._when
        if when > self._vtime:
            self._vtime = when
        while self._scheduled and self._scheduled[0]._when <= self._vtime:
            h = heapq.heappop(self._scheduled)
            h._scheduled = False
            if h._cancelled:
                self._timer_cancelled_count = max(0, self._timer_cancelled_count - 1)
                continue
            self._ready.append(h)
        return when

    # -- executor jobs ------------------------------------------------------------
    def pending_jobs(self) -> list[Job]:
        return list(self.jobs)

    def run_job(self, job: Job) -> None:
        """The job takes effect now (a worker thread ran it) and its future completes."""
        self.jobs.remove(job)
        try:
            result = job.func(*job.args)
        except BaseException as exc:  # noqa: BLE001
            if not job.fut.cancelled():
                job.fut.set_exception(exc)
            return
        if not job.fut.cancelled():
            job.fut.set_result(result)

    def drop_job(self, job: Job) -> None:
        """A cancelled job that was still queued in the pool never runs."""
        if not job.fut.cancelled():
            raise HarnessError("only a cancelled job can be dropped")
        self.jobs.remove(job)

    def fail_job(self, job: Job, exc: BaseException) -> None:
        self.jobs.remove(job)
        if not job.fut.cancelled():
            job.fut.set_exception(exc)

    # -- end of run -----------------------------------------------------------------
    def tasks(self) -> set:
        return asyncio.all_tasks(self)

    def collect_unretrieved(self) -> list[dict]:
        gc.collect()
        return list(self.exc_records)

    def shutdown(self) -> None:
        """End of an execution (after the verdict): unwind what is left so nothing lingers."""
        try:
            for _ in range(5):
                pending = [t for t in asyncio.all_tasks(self) if not t.done()]
                if not pending:
                    break
                for t in pending:
                    t._log_destroy_pending = False
                    t.cancel()
                for j in list(self.jobs):
                    if not j.fut.done():
                        j.fut.cancel()
                self.jobs.clear()
                self.run_ready(limit=20000)
        except BaseException:  # noqa: BLE001
            pass
        self.exc_records.clear()
        self._ready.clear()
        self._scheduled.clear()
        self.jobs.clear()
        self.leave()
        try:
            self.close()
        except Exception:  # noqa: BLE001
            pass
