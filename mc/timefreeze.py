"""Own the wall clock: time.time/localtime/gmtime frozen to a chosen instant and POSIX TZ rule."""

from __future__ import annotations

import calendar
import os
import time

T_WINTER = calendar.timegm((2024, 1, 15, 12, 0, 0))
T_SUMMER = calendar.timegm((2024, 7, 15, 12, 0, 0))
# POSIX TZ rule -> utc offset in seconds at (winter, summer), computed by hand from the rule
TZS = {
    "UTC0": (0, 0),
    "IST-5:30": (19800, 19800),
    "PST8": (-28800, -28800),
    "EST5EDT,M3.2.0,M11.1.0": (-18000, -14400),
}

_orig_localtime = time.localtime
_orig_time = time.time
_orig_gmtime = time.gmtime
_frozen = {"tz": None, "t": None}


def freeze(tz: str, t: int) -> None:
    if _frozen["tz"] != tz:
        os.environ["TZ"] = tz
        time.tzset()
        _frozen["tz"] = tz
    if _frozen["t"] != t:
        _frozen["t"] = t

        def localtime(secs=None):
            return _orig_localtime(_frozen["t"] if secs is None else secs)

        time.localtime = localtime
        time.gmtime = lambda secs=None: _orig_gmtime(_frozen["t"] if secs is None else secs)
        time.time = lambda: float(_frozen["t"])


def unfreeze() -> None:
    time.localtime = _orig_localtime
    time.time = _orig_time
    time.gmtime = _orig_gmtime
    _frozen["t"] = None




def default() -> None:
    """The default frozen clock for every check."""
    freeze("UTC0", T_WINTER)
