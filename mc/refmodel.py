"""Reference facts and oracles written from the property statements / the MySensors serial API.

Nothing here imports library logic.
"""

from __future__ import annotations

import re

VERSIONS = ("1.4", "1.5", "2.0", "2.1", "2.2")
SUPPORTED = ((1, 4), (1, 5), (2, 0), (2, 1), (2, 2))

# MySensors serial API: highest internal type number per protocol version (types are 0..max).
INTERNAL_MAX = {"1.4": 14, "1.5": 17, "2.0": 28, "2.1": 28, "2.2": 33}
STREAM_MAX = {v: 5 for v in VERSIONS}

# command numbers
PRESENTATION, SET, REQ, INTERNAL, STREAM = 0, 1, 2, 3, 4

# internal types used by the oracles (serial API numbering)
I_BATTERY_LEVEL = 0
I_TIME = 1
I_VERSION = 2
I_ID_REQUEST = 3
I_ID_RESPONSE = 4
I_INCLUSION_MODE = 5
I_CONFIG = 6
I_LOG_MESSAGE = 9
I_SKETCH_NAME = 11
I_SKETCH_VERSION = 12
I_REBOOT = 13
I_GATEWAY_READY = 14
I_PRESENTATION = 19  # request presentation (2.0+)
I_DISCOVER = 20  # discover request (2.0+)  (2.0 numbering: I_DISCOVER_REQUEST)
I_DISCOVER_RESPONSE = 21
I_HEARTBEAT_RESPONSE = 22
I_PRE_SLEEP_NOTIFICATION = 32  # 2.2
I_POST_SLEEP_NOTIFICATION = 33

S_ARDUINO_NODE = 17
S_ARDUINO_REPEATER = 18


def is2x(version: str | None) -> bool:
    return version is not None and version.startswith("2.")


def wake_type(version: str) -> int | None:
    """The message type by which a node announces it is awake (C07)."""
    if version in ("2.0", "2.1"):
        return I_HEARTBEAT_RESPONSE
    if version == "2.2":
        return I_PRE_SLEEP_NOTIFICATION
    return None


def enc(node, child, cmd, ack, typ, payload="") -> str:
    return f"{node};{child};{cmd};{ack};{typ};{payload}\n"


PLAIN_INT = re.compile(r"-?(0|[1-9][0-9]*)\Z")


def spec_protocol(version: str | None) -> str | None:
    """C05: newest supported protocol whose major.minor does not exceed the reported release;
    1.4 for anything older and while no version has been reported. None = not a release string."""
    if version is None:
        return "1.4"
    m = re.match(r"(\d+)\.(\d+)(?:\.\d+)*\Z", version)
    if not m:
        return None
    mm = (int(m.group(1)), int(m.group(2)))
    best = (1, 4)
    for s in SUPPORTED:
        if s <= mm:
            best = s
    return f"{best[0]}.{best[1]}"


def type_exists(version: str, command: int, typ: int) -> bool:
    if command == INTERNAL:
        return 0 <= typ <= INTERNAL_MAX[version]
    if command == STREAM:
        return 0 <= typ <= STREAM_MAX[version]
    raise ValueError(command)


def cross_field_ok(node: int, child: int, cmd: int, ack: int, typ: int) -> bool:
    """C02 acceptance predicate on integer field values."""
    if not (0 <= node <= 255 and 0 <= child <= 255 and 0 <= cmd <= 4 and ack in (0, 1)):
        return False
    if cmd in (INTERNAL, STREAM) and child != 255:
        if not (cmd == INTERNAL and typ in (I_ID_REQUEST, I_ID_RESPONSE)):
            return False
    if child == 255 and cmd in (SET, REQ):
        return False
    return True
