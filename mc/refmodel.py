"""Reference facts and oracles written from the property statements / the MySensors serial API.

Nothing here imports library logic.
"""

from __future__ import annotations

import re

VERSIONS = ("1.4", "1.5", "2.0", "2.1", "2.2")
SUPPORTED = ((1, 4), (1, 5), (2, 0), (2, 1), (2, 2))

# MySensors serial API: highest internal type number per protocol version (types are 0..max).
INTERNAL_MAX = {"1.4": 14, "1.5": 17, "2.0": 28, "2.1": 28, "2.2": 33}
STREAM_MAX = {v: 5 for v in VERSIONS}
# presentation (S_*) and set/req (V_*) type tables of the serial API: highest number per version
S_MAX = {"1.4": 25, "1.5": 35, "2.0": 39, "2.1": 39, "2.2": 39}
V_MAX = {"1.4": 39, "1.5": 46, "2.0": 56, "2.1": 56, "2.2": 56}

# command numbers
PRESENTATION, SET, REQ, INTERNAL, STREAM = 0, 1, 2, 3, 4

# internal types used by the oracles (serial API numbering)
I_BATTERY_LEVEL = 0
I_TIME = 1
I_VERSION = 2
I_ID_REQUEST = 3
I_ID_RESPONSE = 4
I_INCLUSION_MODE = 5
I_CONFIG = 6
I_LOG_MESSAGE = 9
I_SKETCH_NAME = 11
I_SKETCH_VERSION = 12
I_REBOOT = 13
I_GATEWAY_READY = 14
I_PRESENTATION = 19  # request presentation (2.0+)
I_DISCOVER = 20  # discover request (2.0+)  (2.0 numbering: I_DISCOVER_REQUEST)
I_DISCOVER_RESPONSE = 21
I_HEARTBEAT_RESPONSE = 22
I_PRE_SLEEP_NOTIFICATION = 32  # 2.2
I_POST_SLEEP_NOTIFICATION = 33

S_ARDUINO_NODE = 17
S_ARDUINO_REPEATER = 18


def is2x(version: str | None) -> bool:
    return version is not None and version.startswith("2.")


def wake_type(version: str) -> int | None:
    """The message type by which a node announces it is awake (C07)."""
    if version in ("2.0", "2.1"):
        return I_HEARTBEAT_RESPONSE
    if version == "2.2":
        return I_PRE_SLEEP_NOTIFICATION
    return None


def enc(node, child, cmd, ack, typ, payload="") -> str:
    return f"{node};{child};{cmd};{ack};{typ};{payload}\n"


PLAIN_INT = re.compile(r"-?(0|[1-9][0-9]*)\Z")


def spec_protocol(version: str | None) -> str | None:
    """C05: newest supported protocol whose major.minor does not exceed the reported release;
    1.4 for anything older and while no version has been reported. None = not a release string."""
    if version is None:
        return "1.4"
    m = re.match(r"(\d+)\.(\d+)(?:\.\d+)*\Z", version)
    if not m:
        return None
    mm = (int(m.group(1)), int(m.group(2)))
    best = (1, 4)
    for s in SUPPORTED:
        if s <= mm:
            best = s
    return f"{best[0]}.{best[1]}"


def type_exists(version: str, command: int, typ: int) -> bool:
    if command == INTERNAL:
        return 0 <= typ <= INTERNAL_MAX[version]
    if command == STREAM:
        return 0 <= typ <= STREAM_MAX[version]
    raise ValueError(command)


def cross_field_ok(node: int, child: int, cmd: int, ack: int, typ: int) -> bool:
    """C02 acceptance predicate on integer field values."""
    if not (0 <= node <= 255 and 0 <= child <= 255 and 0 <= cmd <= 4 and ack in (0, 1)):
        return False
    if cmd in (INTERNAL, STREAM) and child != 255:
        if not (cmd == INTERNAL and typ in (I_ID_REQUEST, I_ID_RESPONSE)):
            return False
    if child == 255 and cmd in (SET, REQ):
        return False
    return True


# ---------------------------------------------------------------------------
# Registry reference model (C04, reused by C10/C13): written from the statement of C04.

UNSPEC = "<unspecified>"


class RegistryModel:
    """nodes: id -> {type, version, battery, sketch_name, sketch_version, heartbeat, children}
    children: id -> {type, description, values{type: payload}}.
    Attributes the statement does not fix after a (re)presentation are UNSPEC until reported."""

    def __init__(self) -> None:
        self.nodes: dict[int, dict] = {}

    def copy_key(self):
        return repr(sorted((n, sorted((k, repr(v)) for k, v in d.items())) for n, d in self.nodes.items()))

    def fresh(self, typ=UNSPEC, version=UNSPEC) -> dict:
        return {
            "type": typ,
            "version": version,
            "battery": UNSPEC,
            "sketch_name": UNSPEC,
            "sketch_version": UNSPEC,
            "heartbeat": UNSPEC,
            "children": {},
        }

    def expect(self, version: str, f: tuple) -> tuple:
        """Expected outcome class of a received, well-formed, supported message *before* applying:
        ("ok",) | ("missing_node", n) | ("missing_child", c)."""
        n, c, cmd, _ack, t, _p = f
        if cmd == PRESENTATION:
            if c == 255:
                return ("ok",)
            return ("ok",) if n in self.nodes else ("missing_node", n)
        if cmd in (SET, REQ):
            if n not in self.nodes:
                return ("missing_node", n)
            if c not in self.nodes[n]["children"]:
                return ("missing_child", c)
            return ("ok",)
        if cmd == INTERNAL:
            needs_node = {I_BATTERY_LEVEL, I_SKETCH_NAME, I_SKETCH_VERSION}
            if is2x(version):
                needs_node |= {I_DISCOVER_RESPONSE, I_HEARTBEAT_RESPONSE}
            if version == "2.2":
                needs_node |= {I_PRE_SLEEP_NOTIFICATION}
            if t in needs_node and n not in self.nodes:
                return ("missing_node", n)
            return ("ok",)
        if cmd == STREAM:
            return ("ok",) if n in self.nodes else ("missing_node", n)
        raise ValueError(cmd)

    def apply(self, version: str, f: tuple) -> None:
        """Apply a message whose expected outcome is ok."""
        n, c, cmd, _ack, t, p = f
        if cmd == PRESENTATION:
            if c == 255:
                self.nodes[n] = self.fresh(t, p)
            else:
                self.nodes[n]["children"][c] = {"type": t, "description": p, "values": {}}
        elif cmd == SET:
            self.nodes[n]["children"][c]["values"][t] = p
        elif cmd == INTERNAL:
            if t == I_BATTERY_LEVEL:
                try:
                    self.nodes[n]["battery"] = round(float(p))
                except (ValueError, OverflowError):
                    self.nodes[n]["battery"] = UNSPEC  # an implementation that accepted this has no specified value
            elif t == I_SKETCH_NAME:
                self.nodes[n]["sketch_name"] = p
            elif t == I_SKETCH_VERSION:
                self.nodes[n]["sketch_version"] = p
            elif t == I_HEARTBEAT_RESPONSE and is2x(version):
                try:
                    self.nodes[n]["heartbeat"] = int(p)
                except ValueError:
                    self.nodes[n]["heartbeat"] = UNSPEC

    def placeholder(self, nid: int) -> None:
        self.nodes[nid] = self.fresh()

    def diff(self, view: dict) -> list[str]:
        """Compare with harness.registry_view(gateway.nodes); returns differences on specified attributes."""
        out = []
        if set(view) != set(self.nodes):
            out.append(f"node ids {sorted(view)} != expected {sorted(self.nodes)}")
        for n in sorted(set(view) & set(self.nodes)):
            m, r = self.nodes[n], view[n]
            pairs = [
                ("type", r["node_type"]),
                ("version", r["protocol_version"]),
                ("battery", r["battery_level"]),
                ("sketch_name", r["sketch_name"]),
                ("sketch_version", r["sketch_version"]),
                ("heartbeat", r["heartbeat"]),
            ]
            if r["node_id"] != n:
                out.append(f"node {n} carries node_id {r['node_id']!r}")
            for name, got in pairs:
                if m[name] != UNSPEC and m[name] != got:
                    out.append(f"node {n} {name} = {got!r}, expected {m[name]!r}")
            if set(r["children"]) != set(m["children"]):
                out.append(f"node {n} children {sorted(r['children'])} != expected {sorted(m['children'])}")
            for c in sorted(set(r["children"]) & set(m["children"])):
                mc_, rc = m["children"][c], r["children"][c]
                if rc["child_id"] != c:
                    out.append(f"node {n} child {c} carries child_id {rc['child_id']!r}")
                if rc["child_type"] != mc_["type"]:
                    out.append(f"node {n} child {c} type = {rc['child_type']!r}, expected {mc_['type']!r}")
                if rc["description"] != mc_["description"]:
                    out.append(f"node {n} child {c} description = {rc['description']!r}, expected {mc_['description']!r}")
                if rc["values"] != mc_["values"]:
                    out.append(f"node {n} child {c} values = {rc['values']!r}, expected {mc_['values']!r}")
        return out
