"""E1: explicit-state breadth-first search over the real transition function.

A state is represented by the shortest event history reaching it; it is materialised by
replaying that history on a fresh monitor (which owns a fresh real Gateway). A property
module provides a *monitor factory*:

    make(cfg) -> monitor
    monitor.events() -> list of JSON-able events enabled in the current state (ordered simplest first)
    monitor.apply(event) -> list[Violation-tuples (key, what, extra)]   (executes the real code)
    monitor.key() -> hashable canonical form (implementation state + harness + monitor state)
    optional monitor.nontrivial -> bool (was the last step 'interesting' by the property's rule)

The engine explores level by level; the frontier of each level is expanded in parallel.
"""

from __future__ import annotations

import copy
import importlib
import sys
import types
from typing import Any

from . import core, modstate
from .core import Violation, digest

_MODS: dict[str, Any] = {}


def _mod(name: str):
    m = _MODS.get(name)
    if m is None:
        m = _MODS[name] = importlib.import_module(name)
    return m


def build(modname: str, cfg: Any, history: list):
    modstate.reset()
    mon = _mod(modname).make(cfg)
    for ev in history:
        mon.apply(ev)
    return mon


_BASE_MEMO: list | None = None


def fork(mon):
    """Copy a live monitor (real Gateway + transport + model). Everything reachable from the
    monitor is deep-copied generically (so state added by a changed tree is copied too); modules
    are shared; a suspended listen() generator cannot be copied and is reopened by the Session."""
    global _BASE_MEMO
    if _BASE_MEMO is None:
        _BASE_MEMO = [m for m in sys.modules.values() if isinstance(m, types.ModuleType)]
    memo = {id(m): m for m in _BASE_MEMO}
    return copy.deepcopy(mon, memo)


def _expand(job):
    """Expand one state: returns [(event, key_digest, violations, nontrivial)].

    The state is materialised once by replaying its history from scratch through one long-lived
    listen() generator; each outgoing transition then runs on a deep copy of that live state."""
    modname, cfg, history = job
    base = build(modname, cfg, history)
    g = modstate.guard()
    base_mod = g.diff()  # process-global library state is part of the state
    events = list(base.events())
    out = []
    # a generic deep copy is only used if it is faithful: some objects rebuild themselves differently when
    # copied (a dict subclass whose __setitem__ maintains a counter); then every transition replays the history
    base_key = digest((base.key(), g.key()))
    try:
        probe = fork(base)
        faithful = digest((probe.key(), g.key())) == base_key
    except Exception:  # noqa: BLE001
        faithful = False
    for ev in events:
        if faithful:
            g.restore(base_mod)
            mon = fork(base)
        else:
            mon = build(modname, cfg, history)
        viols = mon.apply(ev)
        out.append((ev, digest((mon.key(), g.key())), viols, bool(getattr(mon, "nontrivial", False))))
    return out


def _root_key(job):
    modname, cfg, history = job
    mon = build(modname, cfg, history)
    return digest((mon.key(), modstate.guard().key()))


def search(ctx: core.Ctx, modname: str, cfgs: list, max_depth: int, max_states: int | None = None, label=None) -> dict:
    """BFS for each cfg (independent state spaces). Returns aggregated statistics + violations."""
    total_states = total_trans = total_nontrivial = 0
    violations: list[Violation] = []
    per_cfg = []
    samples = []
    all_closed = True
    capped = False
    for cfg in cfgs:
        seen = {_root_key((modname, cfg, []))}
        frontier = [[]]
        depth = 0
        trans = 0
        nontriv = 0
        closed = False
        deepest: list = []
        while frontier and depth < max_depth:
            jobs = [(modname, cfg, h) for h in frontier]
            results = core.pmap(_expand, jobs, ctx.workers)
            nxt = []
            for h, res in zip(frontier, results):
                for ev, key, viols, nt in res:
                    trans += 1
                    nontriv += nt
                    for vk, what, extra in viols:
                        violations.append(
                            Violation(
                                key=vk,
                                what=what,
                                replay={"cfg": cfg, "history": h + [ev], "extra": extra},
                            )
                        )
                    if key not in seen:
                        seen.add(key)
                        nxt.append(h + [ev])
            depth += 1
            frontier = nxt
            if nxt:
                deepest = nxt[-1]
            if max_states is not None and len(seen) > max_states:
                capped = True
                break
        if not frontier:
            closed = True
        else:
            all_closed = False
        total_states += len(seen)
        total_trans += trans
        total_nontrivial += nontriv
        per_cfg.append({"cfg": cfg, "states": len(seen), "transitions": trans, "depth_completed": depth, "closed": closed})
        if deepest:
            samples.append({"cfg": cfg, "history": deepest})
    return {
        "states": total_states,
        "transitions": total_trans,
        "nontrivial_transitions": total_nontrivial,
        "per_cfg": per_cfg,
        "closed": all_closed,
        "capped": capped,
        "samples": samples,
        "violations": violations,
    }


def _search_one(job):
    """Sequential BFS of one cfg inside a worker (used when there are many small state spaces)."""
    modname, cfg, max_depth = job
    base0 = build(modname, cfg, [])
    seen = {digest((base0.key(), modstate.guard().key()))}
    frontier = [[]]
    depth = trans = nontriv = 0
    viols_out = []
    deepest = []
    while frontier and depth < max_depth:
        nxt = []
        for h in frontier:
            for ev, key, viols, nt in _expand((modname, cfg, h)):
                trans += 1
                nontriv += nt
                for vk, what, extra in viols:
                    viols_out.append((vk, what, {"cfg": cfg, "history": h + [ev], "extra": extra}))
                if key not in seen:
                    seen.add(key)
                    nxt.append(h + [ev])
        depth += 1
        frontier = nxt
        if nxt:
            deepest = nxt[-1]
    return {"cfg": cfg, "states": len(seen), "transitions": trans, "nontriv": nontriv, "depth_completed": depth,
            "closed": not frontier, "violations": viols_out, "deepest": deepest}


def search_many(ctx: core.Ctx, modname: str, cfgs: list, max_depth: int) -> dict:
    """One sequential BFS per cfg, cfgs spread over the worker pool."""
    results = core.pmap(_search_one, [(modname, c, max_depth) for c in cfgs], ctx.workers, chunksize=1)
    out = {"states": 0, "transitions": 0, "nontrivial_transitions": 0, "per_cfg": [], "samples": [], "violations": [], "closed": True, "capped": False}
    for r in results:
        out["states"] += r["states"]
        out["transitions"] += r["transitions"]
        out["nontrivial_transitions"] += r["nontriv"]
        out["per_cfg"].append({k: r[k] for k in ("cfg", "states", "transitions", "depth_completed", "closed")})
        out["closed"] = out["closed"] and r["closed"]
        if r["deepest"]:
            out["samples"].append({"cfg": r["cfg"], "history": r["deepest"]})
        for vk, what, rep in r["violations"]:
            out["violations"].append(Violation(key=vk, what=what, replay=rep))
    return out


def replay_history(modname: str, data: dict) -> dict:
    """Plain replay of a recorded history (no explorer): returns per-step violations."""
    cfg, history = data["cfg"], data["history"]
    modstate.reset()
    mon = _mod(modname).make(cfg)
    found = []
    trace = []
    for ev in history:
        viols = mon.apply(ev)
        trace.append({"event": ev, "outcome": getattr(mon, "last_desc", None)})
        for vk, what, _extra in viols:
            found.append({"key": vk, "what": what})
    return {"violated": bool(found), "violations": found, "trace": trace}
