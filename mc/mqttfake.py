"""A fake broker client injected at aiomysensors.transport.mqtt.AsyncioClient (the seam the repo's tests patch).

`messages` is aiomqtt's *real* MessagesIterator over a real asyncio.Queue and a `_disconnected` future,
so cancellation and disconnection behave as in production. Delivery obeys MQTT filter matching.
"""

from __future__ import annotations

import asyncio

from aiomqtt import Message as MqttMessage
from aiomqtt import MqttError
from aiomqtt.client import MessagesIterator


def topic_matches(filt: str, topic: str) -> bool:
    """Standard MQTT topic filter matching ('+' one level, '#' the rest)."""
    fl, tl = filt.split("/"), topic.split("/")
    for i, f in enumerate(fl):
        if f == "#":
            return i == len(fl) - 1
        if i >= len(tl):
            return False
        if f != "+" and f != tl[i]:
            return False
    return len(fl) == len(tl)


class FakeClient:
    instances: list["FakeClient"] = []
    plan: dict = {}  # class-level fault plan for the next instance: {"connect": exc, "subscribe": exc, "publish": exc, "exit": exc}
    delivery = "qos0"  # "qos0": mid 0, qos 0 | "same-mid": every delivery is QoS 1 with packet id 1 (brokers reuse ids)
    suspend: set = set()  # operations ("connect", "subscribe") that wait for the broker: the explorer completes them
    gates: list = []  # [(operation, future)] of suspended operations, oldest first

    def __init__(self, hostname, port=1883, **kwargs) -> None:
        self.hostname, self.port, self.kwargs = hostname, port, kwargs
        self._loop = asyncio.get_running_loop()
        self._queue: asyncio.Queue = asyncio.Queue()
        self._disconnected = self._loop.create_future()
        self.messages = MessagesIterator(self)
        self.subscriptions: list[tuple[str, int]] = []
        self.published: list[tuple] = []
        self.entered = 0
        self.exited = 0
        self.fail = dict(FakeClient.plan)
        self._mid = 0
        FakeClient.instances.append(self)

    async def _gate(self, op: str) -> None:
        if op in FakeClient.suspend:
            fut = self._loop.create_future()
            entry = (op, fut)
            FakeClient.gates.append(entry)
            try:
                await fut
            finally:
                if entry in FakeClient.gates:
                    FakeClient.gates.remove(entry)

    async def __aenter__(self):
        await self._gate("connect")
        if "connect" in self.fail:
            raise self.fail["connect"]
        self.entered += 1
        return self

    async def __aexit__(self, *exc):
        self.exited += 1
        if "exit" in self.fail:
            raise self.fail["exit"]

    async def subscribe(self, topic, qos=0, **kwargs):
        await self._gate("subscribe")
        if "subscribe" in self.fail:
            raise self.fail["subscribe"]
        self.subscriptions.append((topic, qos))

    async def publish(self, topic, payload=None, qos=0, retain=False, **kwargs):
        if "publish" in self.fail:
            raise self.fail["publish"]
        self.published.append((topic, payload, qos, retain))

    # -- broker side ---------------------------------------------------------
    def matches(self, topic: str) -> bool:
        return any(topic_matches(f, topic) for f, _ in self.subscriptions)

    def deliver(self, topic: str, payload: bytes) -> bool:
        if not self.matches(topic):
            return False
        self._mid += 1
        if FakeClient.delivery == "same-mid":
            self._queue.put_nowait(MqttMessage(topic, payload, 1, False, 1, None))
        elif FakeClient.delivery == "retained":
            self._queue.put_nowait(MqttMessage(topic, payload, 1, True, self._mid, None))
        else:
            self._queue.put_nowait(MqttMessage(topic, payload, 0, False, self._mid, None))
        return True

    def broker_error(self) -> None:
        if not self._disconnected.done():
            self._disconnected.set_exception(MqttError("connection lost"))
