"""Shared plumbing: violations, reports, evidence, known findings, parallel map."""

from __future__ import annotations

import dataclasses
import fnmatch
import hashlib
import json
import multiprocessing
import os
import subprocess
import sys
import time
from typing import Any, Callable, Iterable

VERIF = os.path.dirname(os.path.dirname(os.path.abspath(__file__)))
OUT = os.environ.get("VERIF_OUT_DIR", VERIF)  # evidence/ and replays/ live here (overridden only by the seed matrix)
EVIDENCE_SCHEMA = "/root/.vp/EVIDENCE.schema.json"
NCPU = min(16, os.cpu_count() or 1)


class HarnessError(BaseException):
    """The machinery lost control (never a verdict)."""


@dataclasses.dataclass
class Violation:
    """One observed violation.

    key: canonical signature (used for known-finding matching and dedup).
    what: one-line description.
    replay: JSON-able dict with everything the property's replay() needs.
    """

    key: str
    what: str
    replay: dict


@dataclasses.dataclass
class Report:
    level: str
    coverage: dict
    violations: list[Violation] = dataclasses.field(default_factory=list)
    assumptions: list[str] = dataclasses.field(default_factory=list)


@dataclasses.dataclass
class Ctx:
    prop: str
    tier: str
    seed: int
    workers: int = NCPU

    @property
    def quick(self) -> bool:
        return self.tier == "quick"

    def pick(self, seq: list, n: int) -> list:
        """Pick n samples deterministically from seed (only for evidence samples)."""
        if not seq:
            return []
        if len(seq) <= n:
            return list(seq)
        step = max(1, len(seq) // n)
        off = self.seed % step
        return [seq[(off + i * step) % len(seq)] for i in range(n)]


def digest(obj: Any) -> str:
    return hashlib.blake2b(repr(obj).encode("utf-8", "surrogatepass"), digest_size=12).hexdigest()


# ---------------------------------------------------------------------------
# parallel map with long-lived workers


def _init_worker() -> None:
    import warnings

    warnings.filterwarnings("ignore")
    from aiomysensors.model.protocol import get_protocol

    get_protocol.cache_clear()


_POOL = None


def pool(workers: int = NCPU):
    global _POOL
    if _POOL is None:
        ctx = multiprocessing.get_context("fork")
        _POOL = ctx.Pool(workers, initializer=_init_worker)
    return _POOL


def close_pool() -> None:
    global _POOL
    if _POOL is not None:
        _POOL.close()
        _POOL.join()
        _POOL = None


def _guarded(job):
    """Run one job in a worker; a BaseException (HarnessError included) must not kill the worker process
    (multiprocessing would then wait for ever): it is sent back and re-raised in the parent."""
    func, item = job
    try:
        return ("ok", func(item))
    except BaseException as exc:  # noqa: BLE001
        import traceback

        return ("err", type(exc).__name__, str(exc), traceback.format_exc()[-1500:])


def pmap(func: Callable, items: Iterable, workers: int = NCPU, chunksize: int | None = None) -> list:
    """Ordered parallel map (func must be a module-level function)."""
    items = list(items)
    if workers <= 1 or len(items) <= 1:
        return [func(i) for i in items]
    if chunksize is None:
        chunksize = max(1, len(items) // (workers * 8))
    out = []
    for r in pool(workers).map(_guarded, [(func, i) for i in items], chunksize=chunksize):
        if r[0] == "ok":
            out.append(r[1])
        elif r[1] == "HarnessError":
            raise HarnessError(r[2])
        else:
            raise HarnessError(f"a worker crashed: {r[1]}: {r[2]}\n{r[3]}")
    return out


# ---------------------------------------------------------------------------
# known findings


def load_findings() -> list[dict]:
    path = os.path.join(VERIF, "known_findings.json")
    with open(path, encoding="utf-8") as f:
        return json.load(f)


def match_finding(findings: list[dict], prop: str, key: str) -> dict | None:
    for f in findings:
        if f.get("property") != prop or f.get("status") != "open":
            continue
        if fnmatch.fnmatchcase(key, f["key"]):
            return f
    return None


# ---------------------------------------------------------------------------
# evidence


def printable(s: str) -> str:
    """Lone surrogates (legal in str, not encodable) become \\udcXX escapes so that files and stdout accept the text."""
    try:
        s.encode("utf-8")
        return s
    except UnicodeEncodeError:
        return s.encode("utf-8", "backslashreplace").decode("utf-8")


def jsonable(o: Any) -> Any:
    if isinstance(o, (str, int, float, bool)) or o is None:
        return o
    if isinstance(o, bytes):
        return {"bytes": o.hex()}
    if isinstance(o, dict):
        return {str(k): jsonable(v) for k, v in o.items()}
    if isinstance(o, (list, tuple, set, frozenset)):
        return [jsonable(x) for x in o]
    return repr(o)


def write_evidence(ctx: Ctx, report: Report, wall: float, nviol: int) -> str:
    ev = {
        "property_id": ctx.prop,
        "tier": ctx.tier,
        "seed": ctx.seed,
        "level": report.level,
        "coverage": jsonable(report.coverage),
        "assumptions": report.assumptions,
        "wall_s": round(wall, 3),
        "violations": nviol,
    }
    path = os.path.join(OUT, "evidence", f"{ctx.prop}.json")
    os.makedirs(os.path.dirname(path), exist_ok=True)
    tmp = path + ".tmp"
    with open(tmp, "w", encoding="utf-8") as f:
        f.write(printable(json.dumps(ev, indent=1, ensure_ascii=False)))
        f.write("\n")
    os.replace(tmp, path)
    validate_evidence(path, ev)
    return path


def validate_evidence(path: str, ev: dict) -> None:
    """Validate with jsonschema (tooling venv); structural fallback."""
    code = (
        "import json,sys,jsonschema;"
        f"s=json.load(open({EVIDENCE_SCHEMA!r}));d=json.load(open(sys.argv[1]));"
        "jsonschema.Draft202012Validator(s).validate(d)"
    )
    try:
        r = subprocess.run(["python3-vt", "-c", code, path], capture_output=True, text=True, timeout=60)
        if r.returncode == 0:
            return
        if "ValidationError" in r.stderr:
            raise HarnessError(f"evidence does not validate: {r.stderr[-800:]}")
    except (FileNotFoundError, subprocess.TimeoutExpired):
        pass
    # fallback: structural
    cov = ev["coverage"]
    if ev["level"] == "model_checking":
        ok = cov.get("states", 0) >= 1 and cov.get("transitions", 0) >= 1 and cov.get("samples")
    else:
        ok = cov.get("evaluations", 0) >= 1 and cov.get("distinct_nontrivial", 0) >= 2 and cov.get("samples") and "rule" in cov
    if not ok:
        raise HarnessError("evidence structurally incomplete")


def write_replay(prop: str, v: Violation, tier: str) -> str:
    d = os.path.join(OUT, "replays")
    os.makedirs(d, exist_ok=True)
    path = os.path.join(d, f"{prop}-{digest(v.key)}.json")
    with open(path, "w", encoding="utf-8") as f:
        json.dump(
            {
                "property": prop,
                "tier": tier,
                "key": v.key,
                "what": v.what,
                "replay": jsonable(v.replay),
                "replay_cmd": f"cd /verif && ./check {prop} --replay {path}",
            },
            f,
            indent=1,
            ensure_ascii=True,  # lone surrogates in a witness survive as \udcXX escapes
        )
        f.write("\n")
    return path


class Timer:
    def __init__(self) -> None:
        self.t0 = time.monotonic()

    def __call__(self) -> float:
        return time.monotonic() - self.t0
