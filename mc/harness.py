"""Sequential harness around the real Gateway: scripted transport, one-step driver, canonical state."""

from __future__ import annotations

import copy
import types
from collections import deque
from typing import Any, Callable

from aiomysensors.exceptions import AIOMySensorsError, TransportError, TransportFailedError
from aiomysensors.gateway import Config, Gateway
from aiomysensors.model.message import Message
from aiomysensors.model.protocol import get_protocol
from aiomysensors.transport import Transport

from .core import HarnessError
from . import timefreeze

timefreeze.default()  # no check ever sees the real wall clock

VERSIONS = ("1.4", "1.5", "2.0", "2.1", "2.2")


class ScriptExhausted(BaseException):
    """read() called with no scripted line left (ends a step; not an Exception on purpose)."""


class InjectedWriteFault(TransportFailedError):
    """The transport error injected by the harness."""


class CustomTransportFault(TransportError):
    """A transport's own error class (the Transport contract is TransportError, not its subclasses)."""


class BareTransportFault(TransportFailedError):
    """Raised without arguments, as `raise TransportFailedError from err` does (str(exc) == "", exc.args == ())."""

    def __init__(self, *args) -> None:
        super().__init__()


FAULT_CLASSES = {"failed": InjectedWriteFault, "plain": TransportError, "custom": CustomTransportFault, "bare": BareTransportFault}


class ScriptTransport(Transport):
    """Implements the library's public abstract Transport.

    reads come from `lines`; writes are logged in invocation order. `fail_writes` is the
    number of upcoming writes that raise; `on_write` lets a monitor look at the gateway at the
    instant of the write.
    """

    def __init__(self) -> None:
        self.lines: deque[str] = deque()
        self.writes: list[str] = []  # successful writes
        self.attempts: list[tuple[str, bool]] = []  # (line, ok)
        self.fail_writes = 0
        self.fail_plan: deque[bool] | None = None  # per-attempt plan (True = fail) consumed first
        self.fault_class = InjectedWriteFault
        self.fail_after_delivery = False
        self.slow_writes = 0  # number of upcoming writes that take `slow_seconds` of (virtual) time before they happen
        self.slow_seconds = 30.0
        self.on_write: Callable[[str], None] | None = None
        self.connected = False
        self.reads = 0

    async def connect(self) -> None:
        self.connected = True

    async def disconnect(self) -> None:
        self.connected = False

    async def read(self) -> str:
        if not self.lines:
            raise ScriptExhausted
        self.reads += 1
        return self.lines.popleft()

    async def write(self, decoded_message: str) -> None:
        if self.slow_writes > 0:
            # a slow link: the bytes go out only after a while (a caller that gives up earlier has written nothing)
            import asyncio

            self.slow_writes -= 1
            await asyncio.sleep(self.slow_seconds)
        if self.on_write is not None:
            self.on_write(decoded_message)
        fail = False
        if self.fail_plan:
            fail = self.fail_plan.popleft()
        elif self.fail_writes > 0:
            self.fail_writes -= 1
            fail = True
        if fail and self.fail_after_delivery:
            # the bytes reach the peer, then the transport reports an error (a reset while draining, a lost PUBACK)
            self.attempts.append((decoded_message, True))
            self.writes.append(decoded_message)
            raise self.fault_class("injected fault after the line was delivered")
        self.attempts.append((decoded_message, not fail))
        if fail:
            raise self.fault_class("injected write fault")
        self.writes.append(decoded_message)


_DRIVE_LOOP = None


def drive_loop():
    """The virtual loop the sequential driver uses when no explorer loop is running."""
    global _DRIVE_LOOP
    if _DRIVE_LOOP is None:
        from .vloop import VLoop

        _DRIVE_LOOP = VLoop()
    return _DRIVE_LOOP


def drive(coro) -> Any:
    """Run a coroutine to completion as a real asyncio Task on a virtual loop. With the sequential transports
    nothing waits for the environment, but the code under test may still suspend on its own (sleep(0), a
    lock, shield, asyncio.timeout): its ready handles are run in order and its timers fire in virtual time.
    A coroutine that waits for something nobody provides is reported."""
    import asyncio
    from asyncio import events

    loop = events._get_running_loop()
    own = loop is None
    if own:
        loop = drive_loop()
        loop.enter()
    try:
        task = loop.create_task(coro)
        n = 0
        while not task.done():
            if loop.step():
                n += 1
                if n > 200000:
                    raise HarnessError("the sequential driver does not come to rest (livelock)")
                continue
            if getattr(loop, "next_timer", None) is not None and loop.next_timer() is not None:
                loop.advance()
                continue
            task.cancel()
            loop.run_ready()
            raise HarnessError("coroutine suspended under the sequential driver: it waits for something nobody provides")
        if task.cancelled():
            raise asyncio.CancelledError
        exc = task.exception()
        if exc is not None:
            raise exc
        return task.result()
    finally:
        if own:
            loop.leave()


def msg_tuple(m: Any) -> tuple:
    return (m.node_id, m.child_id, m.command, m.ack, m.message_type, m.payload)


class Outcome:
    """What one step did."""

    __slots__ = ("kind", "value", "exc", "writes", "attempts", "consumed")

    def __init__(self, kind, value, exc, writes, attempts, consumed):
        self.kind = kind  # "yield" | "raise" | "return"
        self.value = value  # message tuple for yield
        self.exc = exc
        self.writes = writes  # successful writes during the step
        self.attempts = attempts  # all attempts (line, ok)
        self.consumed = consumed  # scripted lines consumed

    @property
    def fields(self):
        """Field values of the yielded message (robust against missing attributes)."""
        m = self.value
        return tuple(getattr(m, a, None) for a in ("node_id", "child_id", "command", "ack", "message_type", "payload"))

    def is_lib_error(self) -> bool:
        return self.kind == "raise" and isinstance(self.exc, AIOMySensorsError)

    def describe(self) -> dict:
        d = {"kind": self.kind, "writes": list(self.writes)}
        if self.kind == "yield":
            d["value"] = list(self.fields)
        if self.kind == "raise":
            d["exc"] = type(self.exc).__name__
            d["exc_str"] = str(self.exc)[:200]
            for a in ("node_id", "child_id"):
                if hasattr(self.exc, a):
                    d[a] = getattr(self.exc, a)
        return d


class Session:
    """A fresh real Gateway over a ScriptTransport, stepped one event at a time.

    Keeps one long-lived listen() generator while steps succeed and opens a new one after a
    step raised (what cli/helper.py does).
    """

    def __init__(self, version: str | None = None, config: Config | None = None, reset_modules: bool = True) -> None:
        if reset_modules:
            from . import modstate

            modstate.reset()  # a fresh gateway starts from import-time module state (see mc/modstate.py)
        self.transport = ScriptTransport()
        self.gateway = Gateway(self.transport, config)
        if version is not None:
            self.gateway.protocol_version = version
        self._agen = None

    def __deepcopy__(self, memo):
        new = object.__new__(Session)
        for k, v in vars(self).items():
            new.__dict__[k] = None if k == "_agen" else copy.deepcopy(v, memo)
        return new

    # -- steps -------------------------------------------------------------
    def _snap(self):
        return len(self.transport.writes), len(self.transport.attempts), self.transport.reads

    def _outcome(self, kind, value, exc, snap) -> Outcome:
        w0, a0, r0 = snap
        t = self.transport
        return Outcome(kind, value, exc, t.writes[w0:], t.attempts[a0:], t.reads - r0)

    def line(self, line: str) -> Outcome:
        """Deliver one line to listen() and take one step."""
        t = self.transport
        if t.lines:
            raise HarnessError("unread scripted lines before step")
        t.lines.append(line)
        snap = self._snap()
        if self._agen is None:
            self._agen = self.gateway.listen()
        try:
            msg = drive(self._agen.__anext__())
        except ScriptExhausted:
            # the generator asked for a second line: it skipped the first without yielding
            self._agen = None
            return self._outcome("skipped", None, None, snap)
        except HarnessError:
            raise
        except BaseException as exc:  # noqa: BLE001
            self._agen = None
            t.lines.clear()
            return self._outcome("raise", None, exc, snap)
        return self._outcome("yield", msg, None, snap)

    def send(self, message: Any, message_buffer: bool | None = None) -> Outcome:
        snap = self._snap()
        try:
            if message_buffer is None:
                drive(self.gateway.send(message))
            else:
                drive(self.gateway.send(message, message_buffer=message_buffer))
        except HarnessError:
            raise
        except BaseException as exc:  # noqa: BLE001
            return self._outcome("raise", None, exc, snap)
        return self._outcome("return", None, None, snap)


# ---------------------------------------------------------------------------
# canonical form


def walk(o: Any, sort_dicts: bool = False, _path: tuple = ()) -> Any:
    if o is None or isinstance(o, (bool, int, float, str, bytes)):
        return (type(o).__name__, o)
    extra = ()
    if type(o) not in (dict, list, tuple, set, frozenset) and isinstance(o, (dict, list, tuple, set, frozenset)) and hasattr(o, "__dict__"):
        # a container subclass may carry state of its own (e.g. a registry that tracks its highest id)
        extra = (("__attrs__", tuple(sorted((k, walk(v, sort_dicts, _path)) for k, v in vars(o).items()))),)
    if isinstance(o, dict):
        items = [(walk(k, sort_dicts, _path), walk(v, sort_dicts, _path)) for k, v in o.items()]
        if sort_dicts:
            items.sort(key=repr)
        return ("dict", tuple(items)) + extra
    if isinstance(o, (list, tuple)):
        return (type(o).__name__, tuple(walk(x, sort_dicts, _path) for x in o)) + extra
    if isinstance(o, (set, frozenset)):
        return ("set", tuple(sorted((walk(x, sort_dicts, _path) for x in o), key=repr))) + extra
    if isinstance(o, types.ModuleType):
        return ("module", o.__name__)
    if isinstance(o, (type, types.FunctionType, types.MethodType, types.BuiltinFunctionType)):
        return ("callable", getattr(o, "__module__", ""), getattr(o, "__qualname__", repr(o)))
    if hasattr(o, "__dict__"):
        m = _marshmallow_view(o, sort_dicts, _path)
        if m is not None:
            return m
        if id(o) in _path:
            return ("cycle", type(o).__name__)  # e.g. a marshmallow schema: field.parent points back at it
        if len(_path) > 40:
            return ("deep", type(o).__name__)
        p2 = _path + (id(o),)
        return (type(o).__name__, tuple(sorted((k, walk(v, sort_dicts, p2)) for k, v in vars(o).items())))
    return ("repr", repr(o))


def _vname(v: Any) -> str:
    return getattr(v, "__qualname__", None) or (type(v).__name__ + repr(sorted((k, repr(x)) for k, x in vars(v).items() if not callable(x))) if hasattr(v, "__dict__") else type(v).__name__)


def _marshmallow_view(o: Any, sort_dicts: bool, _path: tuple) -> Any:
    """Marshmallow schemas and fields are big cyclic object graphs (field.parent -> schema); what a library can
    change about them at run time is the context, the set of fields and each field's validators / flags."""
    import marshmallow

    if isinstance(o, marshmallow.Schema):
        fields = getattr(o, "fields", None) or {}
        return ("schema", type(o).__name__, walk(getattr(o, "context", None), sort_dicts, _path + (id(o),)),
                tuple((n, _marshmallow_view(f, sort_dicts, _path)) for n, f in fields.items()))
    if isinstance(o, marshmallow.fields.Field):
        return ("field", type(o).__name__, tuple(_vname(v) for v in getattr(o, "validators", ())),
                bool(getattr(o, "required", False)), bool(getattr(o, "allow_none", False)), repr(getattr(o, "load_default", None))[:60])
    return None


def canon_nodes(nodes: dict) -> Any:
    """Registry canon: every attribute of every Node/Child; dict order ignored (no code path
    iterates the registry in an order-sensitive way: save sorts keys, id allocation uses max)."""
    return walk(nodes, sort_dicts=True)


def canon_gateway(gw: Gateway) -> Any:
    buf = getattr(gw, "_message_buffer", None)
    schema = getattr(gw, "_message_schema", None)
    ctx_proto = None
    if schema is not None:
        p = schema.context.get("protocol")
        ctx_proto = getattr(p, "__name__", None)
    extra = []
    for k, v in sorted(vars(gw).items()):
        if k in ("nodes", "_message_buffer", "_message_schema", "transport", "persistence", "_protocol", "config"):
            continue
        extra.append((k, walk(v)))
    return (
        canon_nodes(gw.nodes),
        walk(buf),  # insertion order kept: flush order is observable
        gw.protocol_version,
        getattr(gw.protocol, "VERSION", None),
        ctx_proto,
        walk(gw.config),
        tuple(extra),
    )


def registry_view(nodes: dict) -> dict:
    """Plain-data abstraction of the registry for oracles (public attributes only)."""
    out = {}
    for nid, n in nodes.items():
        out[nid] = {
            "node_id": n.node_id,
            "node_type": n.node_type,
            "protocol_version": n.protocol_version,
            "sketch_name": n.sketch_name,
            "sketch_version": n.sketch_version,
            "battery_level": n.battery_level,
            "heartbeat": n.heartbeat,
            "sleeping": n.sleeping,
            "children": {
                cid: {
                    "child_id": c.child_id,
                    "child_type": c.child_type,
                    "description": c.description,
                    "values": dict(c.values),
                }
                for cid, c in n.children.items()
            },
        }
    return out


def enc(node, child, cmd, ack, typ, payload="") -> str:
    """Reference encoder, written from the statement of C01."""
    return f"{node};{child};{cmd};{ack};{typ};{payload}\n"


def reset_caches() -> None:
    get_protocol.cache_clear()


# ---------------------------------------------------------------------------
# transport for the virtual loop (E2)


class AsyncScriptTransport(Transport):
    """Transport whose reads and writes suspend until the explorer completes them.

    In `sync` mode (set-up and final phases) it behaves like ScriptTransport. The write log is in
    invocation order: the order in which bytes reach a real StreamWriter / MQTT publish call."""

    def __init__(self, loop) -> None:
        self.loop = loop
        self.sync = True
        self.lines: deque[str] = deque()
        self.log: list[str] = []  # every write, in invocation order
        self.done: list[str] = []  # writes that completed successfully (completion order)
        self.entries: list[list] = []  # [line, "ok" | "failed" | "pending"] in invocation order
        self.pending_writes: list[list] = []  # [future, line]
        self.pending_reads: list = []  # futures of read() calls waiting for a line (oldest first)
        self.connected = False
        self.connect_error: BaseException | None = None
        self.disconnect_error: BaseException | None = None
        self.calls: list[str] = []

    async def connect(self) -> None:
        self.calls.append("connect")
        if self.connect_error is not None:
            raise self.connect_error
        self.connected = True

    async def disconnect(self) -> None:
        self.calls.append("disconnect")
        self.connected = False
        if self.disconnect_error is not None:
            raise self.disconnect_error

    async def read(self) -> str:
        if self.sync:
            if not self.lines:
                raise ScriptExhausted
            return self.lines.popleft()
        fut = self.loop.create_future()
        self.pending_reads.append(fut)
        try:
            return await fut
        finally:
            if fut in self.pending_reads:
                self.pending_reads.remove(fut)

    async def write(self, decoded_message: str) -> None:
        self.log.append(decoded_message)
        rec = [decoded_message, "pending"]
        self.entries.append(rec)
        if self.sync:
            self.done.append(decoded_message)
            rec[1] = "ok"
            return
        fut = self.loop.create_future()
        entry = [fut, decoded_message]
        self.pending_writes.append(entry)
        try:
            await fut
            self.done.append(decoded_message)
            rec[1] = "ok"
        except BaseException:
            rec[1] = "failed"
            raise
        finally:
            if entry in self.pending_writes:
                self.pending_writes.remove(entry)

    # explorer side
    @property
    def pending_read(self):
        return self.pending_reads[0] if self.pending_reads else None

    def deliver(self, line: str, idx: int = 0) -> None:
        if idx >= len(self.pending_reads) or self.pending_reads[idx].done():
            raise HarnessError("no pending read")
        self.pending_reads.pop(idx).set_result(line)

    def fail_read(self, exc: BaseException) -> None:
        self.pending_reads.pop(0).set_exception(exc)

    def written(self) -> list[str]:
        """Lines whose write completed successfully, in the order the writes were issued (wire order)."""
        return [line for line, st in self.entries if st == "ok"]

    def complete_write(self, idx: int, ok: bool = True) -> None:
        fut, line = self.pending_writes.pop(idx)
        if ok:
            fut.set_result(None)
        else:
            fut.set_exception(InjectedWriteFault("injected write fault"))
