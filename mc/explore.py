"""E2: stateless, deviation-bounded exploration of schedules / environment answers on VLoop.

A property module provides `make_scenario(cfg, loop)` returning an object with
    enabled() -> list[str]      environment events enabled now, canonical order
    fire(label)                 apply one environment event (only makes futures done / spawns tasks)
    finished() -> bool          stop (e.g. all tasks done and nothing left to deliver)
    verdict(hang: bool) -> list[(key, what, extra)]   oracle at the end of the execution
    observation() -> JSON-able  what the execution observed (for outcome counting / determinism)
    nontrivial: bool            was this execution interesting by the property's rule
    horizon: int                max number of steps (harness error beyond)

At every point the menu is ["step"] (if the ready queue is non-empty) + enabled(). The default
answer is index 0. Choosing an environment event while handles are queued costs one deviation.
All orders of environment events at quiescent points cost nothing. Executions with <= K deviations
are enumerated exhaustively (depth-first over choice prefixes, each prefix re-run from scratch).
"""

from __future__ import annotations

import importlib
from typing import Any

from . import core, modstate
from .core import HarnessError, Violation, digest
from .vloop import VLoop

_MODS: dict[str, Any] = {}


def _mod(name: str):
    m = _MODS.get(name)
    if m is None:
        m = _MODS[name] = importlib.import_module(name)
    return m


class ReplayDiverged(HarnessError):
    """Re-running a choice prefix did not meet the same menus: behaviour depends on something uncontrolled."""


class Execution:
    __slots__ = ("choices", "menus", "ready_flags", "trace", "viols", "obs", "nontrivial", "hang", "steps")

    def cost_before(self, i: int) -> int:
        return sum(1 for j in range(i) if self.ready_flags[j] and self.choices[j] > 0)


def run_once(modname: str, cfg: Any, prefix: list, expect_menus: list | None = None) -> Execution:
    modstate.reset()
    loop = VLoop()
    x = Execution()
    x.choices, x.menus, x.ready_flags, x.trace = [], [], [], []
    x.hang = False
    loop.enter()
    try:
        sc = _mod(modname).make_scenario(cfg, loop)
        steps = 0
        horizon = getattr(sc, "horizon", 5000)
        while True:
            if sc.finished():
                break
            ready = loop.ready_count() > 0
            env = list(sc.enabled())
            menu = (["step"] if ready else []) + env
            if not menu:
                x.hang = True
                break
            if len(menu) == 1:
                c = 0
            else:
                i = len(x.choices)
                c = prefix[i] if i < len(prefix) else 0
                if expect_menus is not None and i < len(expect_menus) and list(expect_menus[i]) != menu:
                    raise ReplayDiverged(f"replay diverged at point {i}: menu {menu} != recorded {expect_menus[i]}")
                if c >= len(menu):
                    raise ReplayDiverged(f"choice {c} out of range at point {i} (menu {menu})")
                x.choices.append(c)
                x.menus.append(menu)
                x.ready_flags.append(ready)
            label = menu[c]
            if label == "step":
                loop.step()
            else:
                x.trace.append(label)
                sc.fire(label)
            steps += 1
            if steps > horizon:
                raise HarnessError(f"execution exceeded its horizon of {horizon} steps (cfg {cfg}, prefix {prefix})")
        if len(prefix) > len(x.choices):
            raise ReplayDiverged(f"prefix {prefix} longer than the execution's {len(x.choices)} choice points")
        x.steps = steps
        x.viols = list(sc.verdict(x.hang))
        x.obs = sc.observation()
        x.nontrivial = bool(getattr(sc, "nontrivial", False))
    finally:
        loop.shutdown()
    return x


def children(x: Execution, plen: int, K: int) -> list:
    out = []
    for i in range(plen, len(x.choices)):
        base = x.cost_before(i)
        for alt in range(1, len(x.menus[i])):
            cost = base + (1 if x.ready_flags[i] else 0)
            if cost > K:
                continue
            out.append(x.choices[:i] + [alt])
    return out


def _stats_init() -> dict:
    return {"executions": 0, "nontrivial": 0, "outcomes": set(), "max_points": 0, "viols": [], "hangs": 0, "sample": None}


def _account(stats: dict, x: Execution, cfg, prefix) -> None:
    stats["executions"] += 1
    stats["nontrivial"] += x.nontrivial
    stats["outcomes"].add(digest(x.obs))
    stats["max_points"] = max(stats["max_points"], len(x.choices))
    stats["hangs"] += x.hang
    if stats["sample"] is None or len(x.trace) > len(stats["sample"]["trace"]):
        stats["sample"] = {"cfg": cfg, "choices": list(x.choices), "trace": list(x.trace)}
    for k, what, extra in x.viols:
        stats["viols"].append((k, what, {"cfg": cfg, "choices": list(x.choices), "menus": [list(m) for m in x.menus], "trace": list(x.trace), "extra": extra}))


def _subtree(job):
    modname, cfg, K, prefix = job
    stats = _stats_init()
    stack = [prefix]
    while stack:
        p = stack.pop()
        try:
            x = run_once(modname, cfg, p)
        except ReplayDiverged as err:
            stats["diverged"] = stats.get("diverged", 0) + 1
            stats["diverged_example"] = str(err)[:300]
            continue
        _account(stats, x, cfg, p)
        stack.extend(children(x, len(p), K))
    stats["outcomes"] = list(stats["outcomes"])
    return stats


def explore(ctx: core.Ctx, modname: str, cfgs: list, K: int) -> dict:
    """Exhaustive exploration of every cfg with at most K deviations."""
    total = _stats_init()
    jobs = []
    for cfg in cfgs:
        # expand sequentially until there are enough subtrees to spread over the pool
        frontier = [[]]
        rounds = 0
        while frontier and len(frontier) < 4 and rounds < 3:
            nxt = []
            for p in frontier:
                try:
                    x = run_once(modname, cfg, p)
                except ReplayDiverged as err:
                    total["diverged"] = total.get("diverged", 0) + 1
                    total["diverged_example"] = str(err)[:300]
                    continue
                _account(total, x, cfg, p)
                nxt.extend(children(x, len(p), K))
            frontier = nxt
            rounds += 1
        jobs.extend((modname, cfg, K, p) for p in frontier)
    results = core.pmap(_subtree, jobs, ctx.workers, chunksize=1)
    for st in results:
        total["executions"] += st["executions"]
        total["nontrivial"] += st["nontrivial"]
        total["outcomes"].update(st["outcomes"])
        total["max_points"] = max(total["max_points"], st["max_points"])
        total["hangs"] += st["hangs"]
        total["diverged"] = total.get("diverged", 0) + st.get("diverged", 0)
        if st.get("diverged_example"):
            total["diverged_example"] = st["diverged_example"]
        total["viols"].extend(st["viols"])
        if st["sample"] and (total["sample"] is None or len(st["sample"]["trace"]) > len(total["sample"]["trace"])):
            total["sample"] = st["sample"]
    total["violations"] = [Violation(k, w, rep) for k, w, rep in total.pop("viols")]
    if total.get("diverged") and not total["violations"]:
        # on a tree where the property holds nothing may depend on uncontrolled nondeterminism
        raise HarnessError(f"{total['diverged']} replays diverged and no violation was found: {total.get('diverged_example')}")
    total["distinct_outcomes"] = len(total.pop("outcomes"))
    return total


def replay(modname: str, data: dict) -> dict:
    try:
        x = run_once(modname, data["cfg"], data["choices"], data.get("menus"))
    except ReplayDiverged as err:
        # the recorded schedule cannot be re-run exactly: the code under test depends on something outside the
        # controlled choices (e.g. iteration order of a set of task objects). Re-explore this one configuration
        # without early firings and report whether the property is violated again.
        ctx = core.Ctx(prop="replay", tier="quick", seed=0, workers=1)
        try:
            res = explore(ctx, modname, [data["cfg"]], 0)
            keys = sorted({v.key for v in res["violations"]})
        except HarnessError as err2:
            keys = []
            err = err2
        return {"violated": bool(keys), "violations": [{"key": k, "what": "found again by re-exploring the configuration"} for k in keys], "diverged": str(err)[:200]}
    return {
        "violated": bool(x.viols),
        "violations": [{"key": k, "what": w} for k, w, _ in x.viols],
        "trace": x.trace,
        "observation": x.obs,
        "hang": x.hang,
    }
