"""Own the library's process-global mutable state.

The library keeps no mutable state outside its objects (the only module-level memo is the pure
functools.cache of get_protocol). A changed tree may: a cache dict at module scope, a mutable class
attribute, a mutable default argument, a hoisted scratch object. The explorers treat that as part of the
*state*: it is reset to its import-time value before a state is materialised from its history,
captured with the live state, restored with every fork, and included in the canonical form.

Tracked: in every aiomysensors module, module-level names, class attributes and function defaults
whose value is a dict / list / set / bytearray / deque or an instance of a class defined in aiomysensors;
functools caches are cleared on reset.
"""

from __future__ import annotations

import collections
import copy
import sys
import types
from typing import Any


CONTAINERS = (dict, list, set, bytearray, collections.deque)


def walk(o, sort_dicts=False):
    from .harness import walk as _w

    return _w(o, sort_dicts)


def _lib_modules() -> list:
    return [m for n, m in sorted(sys.modules.items()) if (n == "aiomysensors" or n.startswith("aiomysensors.")) and isinstance(m, types.ModuleType)]


def _is_lib_instance(v: Any) -> bool:
    t = type(v)
    mod = getattr(t, "__module__", "") or ""
    return (mod == "aiomysensors" or mod.startswith("aiomysensors.")) and not isinstance(v, (type, types.FunctionType, types.ModuleType)) and hasattr(v, "__dict__") and not isinstance(v, BaseException) and not hasattr(v, "_member_names_") and not isinstance(v, __import__("enum").Enum)


def _tracked(v: Any) -> bool:
    return isinstance(v, CONTAINERS) or _is_lib_instance(v)


def _slots():
    """Yield (key, getter, setter, deleter) for every tracked location that exists now."""
    for m in _lib_modules():
        for name, v in list(vars(m).items()):
            if name.startswith("__") or isinstance(v, types.ModuleType):
                continue
            if _tracked(v) and getattr(type(v), "__module__", "").split(".")[0] != "marshmallow":
                yield (("mod", m.__name__, name), m, name)
            if isinstance(v, type) and getattr(v, "__module__", None) == m.__name__ and not issubclass(v, __import__("enum").Enum):
                for an, av in list(vars(v).items()):
                    if an.startswith("__") or an in ("_declared_fields", "_hooks", "opts", "Meta"):
                        continue  # marshmallow's own class-level bookkeeping
                    if _tracked(av):
                        yield (("cls", m.__name__, v.__qualname__, an), v, an)
                    f = av.__func__ if isinstance(av, (classmethod, staticmethod)) else av
                    if isinstance(f, types.FunctionType):
                        yield from _func_slots(m, f)
            elif isinstance(v, types.FunctionType) and getattr(v, "__module__", None) == m.__name__:
                yield from _func_slots(m, v)


class _DefaultsSlot:
    """Adapter: one mutable default of a function, addressed by index / keyword."""

    def __init__(self, func, idx) -> None:
        self.func, self.idx = func, idx


def _func_slots(m, f):
    for i, d in enumerate(f.__defaults__ or ()):
        if _tracked(d):
            yield (("fdef", m.__name__, f.__qualname__, i), _DefaultsSlot(f, i), None)
    for k, d in (f.__kwdefaults__ or {}).items():
        if _tracked(d):
            yield (("fkw", m.__name__, f.__qualname__, k), _DefaultsSlot(f, k), None)


def _get(owner, name):
    if isinstance(owner, _DefaultsSlot):
        if isinstance(owner.idx, int):
            return owner.func.__defaults__[owner.idx]
        return owner.func.__kwdefaults__[owner.idx]
    return vars(owner)[name] if name in vars(owner) else None


def _set(owner, name, value) -> None:
    if isinstance(owner, _DefaultsSlot):
        if isinstance(owner.idx, int):
            d = list(owner.func.__defaults__)
            d[owner.idx] = value
            owner.func.__defaults__ = tuple(d)
        else:
            owner.func.__kwdefaults__[owner.idx] = value
        return
    setattr(owner, name, value)


def _clone(v):
    memo = {id(m): m for m in sys.modules.values() if isinstance(m, types.ModuleType)}
    return copy.deepcopy(v, memo)


def _simple(v, depth=0) -> bool:
    """Only primitives / enums / nested builtin containers: then == against the import-time copy is exact."""
    import enum

    if v is None or isinstance(v, (bool, int, float, str, bytes, enum.Enum)):
        return True
    if depth > 6:
        return False
    if isinstance(v, dict):
        return all(_simple(k, depth + 1) and _simple(x, depth + 1) for k, x in v.items())
    if isinstance(v, (list, tuple, set, frozenset, collections.deque)):
        return all(_simple(x, depth + 1) for x in v)
    if isinstance(v, bytearray):
        return True
    return False


def _same(cur, pristine, simple: bool) -> bool:
    if simple:
        try:
            return type(cur) is type(pristine) and cur == pristine
        except Exception:  # noqa: BLE001
            return False
    return walk(cur) == walk(pristine)


class ModGuard:
    def __init__(self) -> None:
        self.pristine: dict = {}
        self.locs: dict = {}
        self.names: dict = {}
        self.simple: dict = {}
        self.modules = _lib_modules()
        self.cache_objs: list = []
        for key, owner, name in _slots():
            self.pristine[key] = _clone(_get(owner, name))
            self.locs[key] = (owner, name)
            self.simple[key] = _simple(self.pristine[key])
        for m in self.modules:
            self.names[m.__name__] = set(vars(m))
        self._find_caches()

    def _clear_caches(self) -> None:
        for cc in self.cache_objs:
            cc()

    def _find_caches(self) -> None:
        self.cache_objs = []
        for m in self.modules:
            for v in list(vars(m).values()):
                cc = getattr(v, "cache_clear", None)
                if callable(cc):
                    self.cache_objs.append(cc)
                if isinstance(v, type) and getattr(v, "__module__", None) == m.__name__:
                    for av in list(vars(v).values()):
                        f = av.__func__ if isinstance(av, (classmethod, staticmethod)) else av
                        cc = getattr(f, "cache_clear", None)
                        if callable(cc):
                            self.cache_objs.append(cc)

    def diff(self) -> dict:
        """Locations whose value differs from import time -> deep copy of the current value.
        Names that appeared since import are included under ("new", module, name)."""
        out = {}
        for key, (owner, name) in self.locs.items():
            cur = _get(owner, name)
            if not _same(cur, self.pristine[key], self.simple[key]):
                out[key] = _clone(cur)
        for m in self.modules:
            known = self.names.get(m.__name__)
            if known is None:
                continue
            for name in set(vars(m)) - known:
                v = vars(m)[name]
                if _tracked(v) or isinstance(v, (int, str, float, bool, type(None), tuple, frozenset, bytes)):
                    out[("new", m.__name__, name)] = _clone(v)
        return out

    def restore(self, snapshot: dict | None = None) -> None:
        """Reset every tracked location to its import-time value, then apply `snapshot` (from diff())."""
        snapshot = snapshot or {}
        for key, (owner, name) in self.locs.items():
            if key in snapshot:
                _set(owner, name, _clone(snapshot[key]))
            else:
                cur = _get(owner, name)
                if not _same(cur, self.pristine[key], self.simple[key]):
                    _set(owner, name, _clone(self.pristine[key]))
        for m in self.modules:
            known = self.names.get(m.__name__)
            if known is None:
                continue
            for name in set(vars(m)) - known:
                key = ("new", m.__name__, name)
                if key in snapshot:
                    setattr(m, name, _clone(snapshot[key]))
                else:
                    v = vars(m)[name]
                    if _tracked(v) or isinstance(v, (int, str, float, bool, type(None), tuple, frozenset, bytes)):
                        delattr(m, name)
        for key, v in snapshot.items():
            if key[0] == "new":
                setattr(sys.modules[key[1]], key[2], _clone(v))
        if not snapshot:
            self._clear_caches()

    def key(self):
        d = self.diff()
        return tuple(sorted((repr(k), repr(walk(v))) for k, v in d.items()))


_GUARD: ModGuard | None = None


def guard() -> ModGuard:
    global _GUARD
    if _GUARD is None:
        import aiomysensors.gateway  # noqa: F401
        import aiomysensors.persistence  # noqa: F401
        import aiomysensors.transport.mqtt  # noqa: F401
        import aiomysensors.transport.serial  # noqa: F401
        import aiomysensors.transport.tcp  # noqa: F401

        _GUARD = ModGuard()
    return _GUARD


def reset() -> None:
    """Import-time module state (called before every execution / state materialisation)."""
    guard().restore(None)
