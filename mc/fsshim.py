"""In-memory file system behind aiofiles.threadpool.sync_open (the seam the repo's own tests patch).

File objects are real io.TextIOWrapper(io.BufferedWriter/BufferedReader(RawShim)) stacks, so CPython's
buffering decides when bytes reach the 'kernel'. RawShim logs every raw operation; the log is what the
crash enumeration of C15 cuts. Paths live under /vfs/, a directory that does not exist on the real
file system, so an access that bypasses the shim fails loudly.
"""

from __future__ import annotations

import io
import os
from contextlib import contextmanager
from unittest.mock import patch

ROOT = "/vfs/"


class StampedLog(list):
    """Raw operation log; remembers the (virtual) time of each append when a clock is attached."""

    def __init__(self) -> None:
        super().__init__()
        self.clock = None
        self.times: list[float | None] = []

    def append(self, item) -> None:
        super().append(item)
        self.times.append(self.clock() if self.clock else None)

    def clear(self) -> None:
        super().clear()
        self.times.clear()


class Inode(bytearray):
    """File content with an identity: open handles keep writing to it after a rename, as on a real file system."""

    _next = 0

    def __new__(cls, *a, **kw):
        obj = super().__new__(cls, *a, **kw)
        Inode._next += 1
        obj.ino = Inode._next
        return obj

    def __deepcopy__(self, memo):
        c = Inode(bytes(self))
        c.ino = self.ino
        return c


class VFS:
    def __init__(self) -> None:
        self.files: dict[str, bytearray] = {}  # path -> content (an Inode once the file has been opened)
        self.log: StampedLog = StampedLog()  # raw operations in order
        self._fds: dict[int, int] = {}  # fake fd -> flags passed to os.open (openers)
        self._next_fd = 100000
        self.fail: dict[str, BaseException] = {}  # op name -> exception to raise once ("open","read","write","close")
        self.opened: list[tuple] = []

    # -- reconstruction of crash states ---------------------------------------
    def _inode(self, path: str) -> Inode:
        b = self.files[path]
        if not isinstance(b, Inode):
            b = self.files[path] = Inode(bytes(b))
        return b

    def state(self) -> dict:
        """{"names": {path: ino}, "data": {ino: bytes}} of the current file system."""
        names, data = {}, {}
        for p in list(self.files):
            i = self._inode(p)
            names[p] = i.ino
            data[i.ino] = bytes(i)
        return {"names": names, "data": data}

    @staticmethod
    def copy_state(st: dict) -> dict:
        return {"names": dict(st["names"]), "data": dict(st["data"])}

    @staticmethod
    def files_of(st: dict) -> dict[str, bytes]:
        return {p: st["data"].get(i, b"") for p, i in st["names"].items()}

    @staticmethod
    def apply(st: dict, op: tuple, upto: int | None = None) -> None:
        """Apply one logged raw operation to a state (inode semantics: a handle keeps its file across renames)."""
        kind = op[0]
        names, data = st["names"], st["data"]
        if kind == "open":
            _, path, mode, ino = op
            names[path] = ino
            if "w" in mode or ino not in data:
                data[ino] = b""
        elif kind == "write":
            _, _path, offset, chunk, ino = op
            if upto is not None:
                chunk = chunk[:upto]
            cur = data.get(ino, b"")
            if len(cur) < offset:
                cur = cur + b"\0" * (offset - len(cur))
            data[ino] = cur[:offset] + chunk + cur[offset + len(chunk):]
        elif kind == "truncate":
            _, _path, size, ino = op
            data[ino] = data.get(ino, b"")[:size]
        elif kind in ("rename", "replace"):
            _, src, dst = op
            names[dst] = names.pop(src)
        elif kind == "remove":
            names.pop(op[1], None)
        # close / fsync / read: no effect on content under the process-crash model

    def snapshot(self) -> dict[str, bytes]:
        return {p: bytes(b) for p, b in self.files.items()}

    # -- the seam -----------------------------------------------------------------
    def sync_open(self, file, mode="r", buffering=-1, encoding=None, errors=None, newline=None, closefd=True, opener=None):
        path = os.fspath(file)
        if not isinstance(path, str) or not path.startswith(ROOT):
            raise OSError(f"fsshim: path outside {ROOT}: {path!r}")
        exc = self.fail.pop("open", None)
        if exc is not None:
            raise exc
        binary = "b" in mode
        writing = any(c in mode for c in "wax+")
        if writing and path in self.files:
            # "open-write": only an open for writing of an EXISTING file fails (permissions of that file)
            exc = self.fail.pop("open-write", None)
            if exc is not None:
                self.log.append(("open-failed", path, mode, None))
                raise exc
        truncate = "w" in mode
        if opener is not None:
            # builtin open() passes the flags it derived from the mode to the opener and uses whatever file the
            # opener opened: emulate that, so an opener that drops O_TRUNC or O_CREAT has its real effect
            flags = {"r": os.O_RDONLY, "w": os.O_WRONLY | os.O_CREAT | os.O_TRUNC, "a": os.O_WRONLY | os.O_CREAT | os.O_APPEND, "x": os.O_WRONLY | os.O_CREAT | os.O_EXCL}[mode.replace("b", "").replace("t", "").replace("+", "")[0]]
            if "+" in mode:
                flags = (flags & ~(os.O_WRONLY | os.O_RDONLY)) | os.O_RDWR
            self._opener_calls = []
            fd = opener(path, flags)
            used = self._fds.pop(fd, None)
            if used is None:
                raise OSError("fsshim: the opener did not open the file through os.open")
            truncate = bool(used & os.O_TRUNC)
            if not (used & os.O_CREAT) and path not in self.files:
                raise FileNotFoundError(2, "No such file or directory", path)
        if "r" in mode and "+" not in mode:
            if path not in self.files:
                raise FileNotFoundError(2, "No such file or directory", path)
        if "x" in mode and path in self.files:
            raise FileExistsError(17, "File exists", path)
        self.opened.append((path, mode))
        if path not in self.files:
            self.files[path] = Inode()
        inode = self._inode(path)
        if truncate:
            del inode[:]  # O_TRUNC empties the inode in place: other open handles see it
        seen_mode = mode.replace("w", "r+") if ("w" in mode and not truncate) else mode  # what the kernel saw
        self.log.append(("open", path, seen_mode, inode.ino))
        raw = RawShim(self, path, mode, inode)
        if buffering == 0:
            return raw
        if writing and "+" in mode:
            buf = io.BufferedRandom(raw)
        elif writing:
            buf = io.BufferedWriter(raw)
        else:
            buf = io.BufferedReader(raw)
        if binary:
            return buf
        return io.TextIOWrapper(buf, encoding=encoding, errors=errors, newline=newline)

    def os_open(self, path, flags, mode=0o777, **kw) -> int:
        self._next_fd += 1
        self._fds[self._next_fd] = flags
        return self._next_fd

    def replace(self, src, dst, **kw) -> None:
        src, dst = os.fspath(src), os.fspath(dst)
        if src not in self.files:
            raise FileNotFoundError(2, "No such file or directory", src)
        self._inode(src)
        self.log.append(("replace", src, dst))
        self.files[dst] = self.files.pop(src)

    def remove(self, path, **kw) -> None:
        path = os.fspath(path)
        if path not in self.files:
            raise FileNotFoundError(2, "No such file or directory", path)
        self.log.append(("remove", path))
        del self.files[path]

    def exists(self, path) -> bool:
        return os.fspath(path) in self.files


class RawShim(io.RawIOBase):
    def __init__(self, vfs: VFS, path: str, mode: str, inode: Inode) -> None:
        super().__init__()
        self.vfs = vfs
        self.path = path
        self.mode = mode
        self.inode = inode
        self.pos = len(inode) if "a" in mode else 0
        self.name = path

    def readable(self) -> bool:
        return "r" in self.mode or "+" in self.mode

    def writable(self) -> bool:
        return any(c in self.mode for c in "wax+")

    def seekable(self) -> bool:
        return True

    def seek(self, offset, whence=0):
        if whence == 0:
            self.pos = offset
        elif whence == 1:
            self.pos += offset
        else:
            self.pos = len(self.inode) + offset
        return self.pos

    def tell(self):
        return self.pos

    def readinto(self, b) -> int:
        exc = self.vfs.fail.pop("read", None)
        if exc is not None:
            raise exc
        data = self.inode[self.pos : self.pos + len(b)]
        b[: len(data)] = data
        self.pos += len(data)
        self.vfs.log.append(("read", self.path, len(data)))
        return len(data)

    def write(self, b) -> int:
        exc = self.vfs.fail.pop("write", None)
        if isinstance(exc, tuple):
            # (exception, k): a short write - this call puts k bytes into the file and reports k (as write(2) does);
            # the caller's next raw write raises the error without writing anything
            exc, k = exc
            part = bytes(b)[:k]
            self.vfs.fail["write"] = exc
            if part:
                self.vfs.log.append(("write", self.path, self.pos, part, self.inode.ino))
                cur = self.inode
                if len(cur) < self.pos:
                    cur.extend(b"\0" * (self.pos - len(cur)))
                cur[self.pos : self.pos + len(part)] = part
                self.pos += len(part)
                return len(part)
            exc = self.vfs.fail.pop("write")
        if exc is not None:
            raise exc
        data = bytes(b)
        self.vfs.log.append(("write", self.path, self.pos, data, self.inode.ino))
        cur = self.inode
        if len(cur) < self.pos:
            cur.extend(b"\0" * (self.pos - len(cur)))
        cur[self.pos : self.pos + len(data)] = data
        self.pos += len(data)
        return len(data)

    def truncate(self, size=None):
        size = self.pos if size is None else size
        self.vfs.log.append(("truncate", self.path, size, self.inode.ino))
        del self.inode[size:]
        return size

    def close(self) -> None:
        if not self.closed:
            exc = self.vfs.fail.pop("close", None)
            self.vfs.log.append(("close", self.path, self.inode.ino))
            super().close()
            if exc is not None:
                raise exc


@contextmanager
def installed(vfs: VFS):
    """Route aiofiles (and os.replace/rename/remove/path.exists for /vfs/ paths) to the shim."""
    import aiofiles.threadpool

    real_os_open = os.open

    def os_open(path, flags, mode=0o777, **kw):
        return vfs.os_open(path, flags, mode) if in_vfs(path) else real_os_open(path, flags, mode, **kw)

    real = {"replace": os.replace, "rename": os.rename, "remove": os.remove, "unlink": os.unlink, "exists": os.path.exists, "fsync": os.fsync}

    def in_vfs(p) -> bool:
        try:
            return os.fspath(p).startswith(ROOT)
        except TypeError:
            return False

    def replace(src, dst, **kw):
        return vfs.replace(src, dst) if in_vfs(src) or in_vfs(dst) else real["replace"](src, dst, **kw)

    def rename(src, dst, **kw):
        return vfs.replace(src, dst) if in_vfs(src) or in_vfs(dst) else real["rename"](src, dst, **kw)

    def remove(p, **kw):
        return vfs.remove(p) if in_vfs(p) else real["remove"](p, **kw)

    def exists(p):
        return vfs.exists(p) if in_vfs(p) else real["exists"](p)

    def fsync(fd):
        if isinstance(fd, int):
            return real["fsync"](fd)
        return None

    def isfile(p):
        return vfs.exists(p) if in_vfs(p) else real_isfile(p)

    def getsize(p):
        if in_vfs(p):
            if not vfs.exists(p):
                raise FileNotFoundError(2, "No such file or directory", os.fspath(p))
            return len(vfs.files[os.fspath(p)])
        return real_getsize(p)

    real_isfile, real_getsize = os.path.isfile, os.path.getsize

    import shutil

    real_copyfile, real_copy, real_copy2, real_move = shutil.copyfile, shutil.copy, shutil.copy2, shutil.move

    def copyfile(src, dst, **kw):
        if not (in_vfs(src) or in_vfs(dst)):
            return real_copyfile(src, dst, **kw)
        src, dst = os.fspath(src), os.fspath(dst)
        if src not in vfs.files:
            raise FileNotFoundError(2, "No such file or directory", src)
        data = bytes(vfs.files[src])
        if dst not in vfs.files:
            vfs.files[dst] = Inode()
        ino = vfs._inode(dst)
        vfs.log.append(("open", dst, "w", ino.ino))
        del ino[:]
        if data:
            vfs.log.append(("write", dst, 0, data, ino.ino))
            ino.extend(data)
        vfs.log.append(("close", dst, ino.ino))
        return dst

    def move(src, dst, **kw):
        if not (in_vfs(src) or in_vfs(dst)):
            return real_move(src, dst, **kw)
        vfs.replace(src, dst)
        return dst

    patches = [
        patch("aiofiles.threadpool.sync_open", vfs.sync_open),
        patch("shutil.copyfile", copyfile),
        patch("shutil.copy", copyfile),
        patch("shutil.copy2", copyfile),
        patch("shutil.move", move),
        patch("os.path.isfile", isfile),
        patch("os.open", os_open),
        patch("os.path.getsize", getsize),
        patch("os.replace", replace),
        patch("os.rename", rename),
        patch("os.remove", remove),
        patch("os.unlink", remove),
        patch("os.path.exists", exists),
    ]
    try:
        import aiofiles.os as aos

        for name, fn in (("replace", replace), ("rename", rename), ("remove", remove), ("unlink", remove)):
            if hasattr(aos, name):
                patches.append(patch(f"aiofiles.os.{name}", aos.wrap(fn)))
        import aiofiles.ospath as aop

        for name, fn in (("exists", exists), ("isfile", isfile), ("getsize", getsize)):
            if hasattr(aop, name):
                patches.append(patch(f"aiofiles.ospath.{name}", aos.wrap(fn)))
    except Exception:  # noqa: BLE001
        pass
    for p in patches:
        p.start()
    try:
        yield vfs
    finally:
        for p in reversed(patches):
            p.stop()


def run_to_completion(loop, coro, max_iter: int = 100000):
    """Sequential driver on VLoop: run a coroutine, completing executor jobs in submission order as soon
    as nothing else can run. Timers are never fired (a coroutine that needs one is reported)."""
    from .core import HarnessError

    task = loop.create_task(coro)
    n = 0
    while not task.done():
        n += 1
        if n > max_iter:
            raise HarnessError("run_to_completion: no progress")
        if loop.ready_count():
            loop.step()
            continue
        jobs = loop.pending_jobs()
        if jobs:
            loop.run_job(jobs[0])
            continue
        raise HarnessError("run_to_completion: coroutine blocked with nothing to run")
    loop.run_ready()
    return task
