"""Sequential helpers: real Persistence.load / save through real aiofiles on VLoop + fsshim."""

from __future__ import annotations

from aiomysensors.persistence import Persistence

from . import fsshim
from .vloop import VLoop

PATH = fsshim.ROOT + "p.json"
_LOOP: VLoop | None = None


def _loop() -> VLoop:
    global _LOOP
    if _LOOP is None:
        _LOOP = VLoop()
    return _LOOP


def run(coro_fn, vfs: fsshim.VFS):
    """Run coro_fn() to completion on the per-process virtual loop with the shim installed.
    Returns ("ok", value) or ("raise", exc)."""
    loop = _loop()
    loop.enter()
    try:
        with fsshim.installed(vfs):
            task = fsshim.run_to_completion(loop, coro_fn())
        if loop.jobs or loop.ready_count():
            loop.jobs.clear()
            loop._ready.clear()
        if task.cancelled():
            return ("cancelled", None)
        exc = task.exception()
        if exc is not None:
            return ("raise", exc)
        return ("ok", task.result())
    finally:
        loop.leave()


def load_bytes(content: bytes | None, nodes: dict | None = None, fail: dict | None = None):
    """Load a file with the given content (None = missing file) into `nodes`."""
    vfs = fsshim.VFS()
    if content is not None:
        vfs.files[PATH] = bytearray(content)
    if fail:
        vfs.fail.update(fail)
    nodes = {} if nodes is None else nodes
    p = Persistence(nodes, PATH)
    kind, val = run(p.load, vfs)
    return kind, val, nodes, vfs


def save_nodes(nodes: dict, vfs: fsshim.VFS | None = None):
    vfs = vfs or fsshim.VFS()
    p = Persistence(nodes, PATH)
    kind, val = run(p.save, vfs)
    return kind, val, vfs
