"""CLI: ./check <ID> --tier quick|thorough [--replay file]."""

from __future__ import annotations

import argparse
import importlib
import json
import os
import sys
import warnings

warnings.filterwarnings("ignore")

from . import core  # noqa: E402


def _assert_repo() -> None:
    import aiomysensors

    path = os.path.realpath(aiomysensors.__file__)
    want = os.path.realpath(os.environ.get("VERIF_REPO_SRC", "/repo/src")) + "/"
    if not path.startswith(want):
        raise core.HarnessError(f"aiomysensors imported from {path}, expected {want}")


def confirm(mod, v: core.Violation) -> bool:
    """Re-execute a violation from scratch twice; observations must agree and still violate."""
    if not hasattr(mod, "replay"):
        return True
    a = mod.replay(json.loads(json.dumps(core.jsonable(v.replay))))
    b = mod.replay(json.loads(json.dumps(core.jsonable(v.replay))))
    if core.jsonable(a) != core.jsonable(b):
        if a.get("violated") and b.get("violated"):
            # the details differ between two replays (the code under test depends on something outside the
            # controlled choices, e.g. the iteration order of a set of objects) but it violates both times
            print(f"  note: replays of {v.key} differ in detail; both violate the property")
            return True
        raise core.HarnessError(f"nondeterministic replay for {v.key}: {str(a)[:600]} vs {str(b)[:600]}")
    return bool(a.get("violated"))


def main(argv: list[str]) -> int:
    ap = argparse.ArgumentParser()
    ap.add_argument("prop")
    ap.add_argument("--tier", default=os.environ.get("VERIF_TIER", "quick"), choices=["quick", "thorough"])
    ap.add_argument("--replay")
    ap.add_argument("--workers", type=int, default=core.NCPU)
    args = ap.parse_args(argv)
    prop = args.prop.upper()
    seed = int(os.environ.get("VERIF_SEED", "0") or 0)
    try:
        _assert_repo()
        mod = importlib.import_module(f"mc.props.{prop.lower()}")
        if args.replay:
            with open(args.replay, encoding="utf-8") as f:
                data = json.load(f)
            obs = mod.replay(data["replay"])
            print(json.dumps(core.jsonable(obs), indent=1, ensure_ascii=False))
            if obs.get("violated"):
                print(f"VIOLATION property={prop} replay={args.replay}")
                return 1
            print("replay: no violation on this tree")
            return 0

        ctx = core.Ctx(prop=prop, tier=args.tier, seed=seed, workers=args.workers)
        timer = core.Timer()
        report: core.Report = mod.run(ctx)
        core.close_pool()
        findings = core.load_findings()
        # dedupe by key, keep first (shortest: enumeration is simplest-first)
        by_key: dict[str, core.Violation] = {}
        for v in report.violations:
            by_key.setdefault(v.key, v)
        new: list[tuple[core.Violation, str]] = []
        known: dict[str, list[str]] = {}
        for key, v in by_key.items():
            f = core.match_finding(findings, prop, key)
            if f is not None:
                known.setdefault(f["key"], []).append(key)
                continue
            if not confirm(mod, v):
                raise core.HarnessError(f"violation {key} did not reproduce on replay: {v.what}")
            new.append((v, core.write_replay(prop, v, args.tier)))
        report.coverage.setdefault("violation_keys", sorted(by_key)[:50])
        core.write_evidence(ctx, report, timer(), len(by_key))
        for f in findings:
            if f.get("property") == prop and f.get("status") == "open" and f["key"] in known:
                print(f"KNOWN-FINDING: property={prop} {f['key']} :: {f['what']} ({len(known[f['key']])} matching signatures)")
        cov = report.coverage
        summary = {k: cov[k] for k in ("states", "transitions", "evaluations", "distinct_nontrivial", "exhaustive", "bounds") if k in cov}
        print(f"{prop} tier={args.tier} seed={seed} level={report.level} {json.dumps(summary)} wall={timer():.1f}s")
        if new:
            for v, path in new[:40]:
                print(f"  {v.key} :: {v.what}")
                print(f"VIOLATION property={prop} replay={path}")
            if len(new) > 40:
                print(f"  ... and {len(new) - 40} more distinct violation signatures")
            return 1
        print(f"OK property={prop}")
        return 0
    except core.HarnessError as err:
        print(f"HARNESS-ERROR property={prop}: {err}")
        return 2
    except Exception as err:  # noqa: BLE001  a crash of the machinery is never a verdict
        import traceback

        traceback.print_exc()
        print(f"HARNESS-ERROR property={prop}: the check crashed: {type(err).__name__}: {err}")
        return 2


if __name__ == "__main__":
    sys.exit(main(sys.argv[1:]))
