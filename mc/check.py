"""CLI: ./check <ID> --tier quick|thorough [--replay file]."""

from __future__ import annotations

import argparse
import importlib
import json
import os
import sys
import warnings

warnings.filterwarnings("ignore")

from . import core  # noqa: E402


def _assert_repo() -> None:
    import aiomysensors

    path = os.path.realpath(aiomysensors.__file__)
    want = os.path.realpath(os.environ.get("VERIF_REPO_SRC", "/repo/src")) + "/"
    if not path.startswith(want):
        raise core.HarnessError(f"aiomysensors imported from {path}, expected {want}")


def _fresh_process_replay(prop: str, v: core.Violation, tier: str) -> bool:
    """Replay in a new interpreter (nothing left over from earlier replays in this process): exit 1 = violated."""
    import subprocess

    path = core.write_replay(prop, v, tier)
    r = subprocess.run([sys.executable, "-m", "mc.check", prop, "--replay", path], capture_output=True, text=True, timeout=1800)
    if r.returncode not in (0, 1):
        raise core.HarnessError(f"replay of {v.key} in a fresh process failed: {r.stdout[-400:]} {r.stderr[-400:]}")
    return r.returncode == 1


def confirm(mod, v: core.Violation, prop: str = "", tier: str = "quick") -> bool:
    """Re-execute a violation from scratch twice; observations must agree and still violate. When the code
    under test keeps state across replays inside one process (a module-level cache, a class attribute), two
    in-process replays can disagree: each replay then gets an interpreter of its own."""
    if not hasattr(mod, "replay"):
        return True
    a = mod.replay(json.loads(json.dumps(core.jsonable(v.replay))))
    b = mod.replay(json.loads(json.dumps(core.jsonable(v.replay))))
    if core.jsonable(a) != core.jsonable(b):
        if a.get("violated") and b.get("violated"):
            # the details differ between two replays (the code under test depends on something outside the
            # controlled choices, e.g. the iteration order of a set of objects) but it violates both times
            print(f"  note: replays of {v.key} differ in detail; both violate the property")
            return True
        if prop:
            x, y = _fresh_process_replay(prop, v, tier), _fresh_process_replay(prop, v, tier)
            if x != y:
                raise core.HarnessError(f"nondeterministic replay for {v.key}, also in fresh processes")
            print(f"  note: in-process replays of {v.key} disagree (state kept across replays); two fresh-process replays {'both violate' if x else 'both hold'}")
            return x
        raise core.HarnessError(f"nondeterministic replay for {v.key}: {str(a)[:600]} vs {str(b)[:600]}")
    return bool(a.get("violated"))


def main(argv: list[str]) -> int:
    ap = argparse.ArgumentParser()
    ap.add_argument("prop")
    ap.add_argument("--tier", default=os.environ.get("VERIF_TIER", "quick"), choices=["quick", "thorough"])
    ap.add_argument("--replay")
    ap.add_argument("--workers", type=int, default=core.NCPU)
    args = ap.parse_args(argv)
    prop = args.prop.upper()
    seed = int(os.environ.get("VERIF_SEED", "0") or 0)
    try:
        _assert_repo()
        mod = importlib.import_module(f"mc.props.{prop.lower()}")
        if args.replay:
            with open(args.replay, encoding="utf-8") as f:
                data = json.load(f)
            obs = mod.replay(data["replay"])
            print(core.printable(json.dumps(core.jsonable(obs), indent=1, ensure_ascii=False)))
            if obs.get("violated"):
                print(f"VIOLATION property={prop} replay={args.replay}")
                return 1
            print("replay: no violation on this tree")
            return 0

        ctx = core.Ctx(prop=prop, tier=args.tier, seed=seed, workers=args.workers)
        timer = core.Timer()
        report: core.Report = mod.run(ctx)
        core.close_pool()
        findings = core.load_findings()
        # dedupe by key, keep first (shortest: enumeration is simplest-first)
        by_key: dict[str, core.Violation] = {}
        for v in report.violations:
            by_key.setdefault(v.key, v)
        new: list[tuple[core.Violation, str]] = []
        unconfirmed: list = []
        known: dict[str, list[str]] = {}
        for key, v in by_key.items():
            f = core.match_finding(findings, prop, key)
            if f is not None:
                known.setdefault(f["key"], []).append(key)
                continue
            if not confirm(mod, v, prop, args.tier):
                unconfirmed.append((key, v))
                continue
            new.append((v, core.write_replay(prop, v, args.tier)))
        if unconfirmed and not new:
            key, v = unconfirmed[0]
            raise core.HarnessError(f"violation {key} did not reproduce on replay: {v.what}")
        for key, v in unconfirmed:
            # found during the exploration (inside a long-lived worker) but not when replayed alone: the code under
            # test carries state from one execution to the next; the confirmed violations below stand on their own
            print(f"  note: {key} was seen during the exploration but does not reproduce when replayed alone; not reported")
        report.coverage.setdefault("violation_keys", sorted(by_key)[:50])
        core.write_evidence(ctx, report, timer(), len(by_key))
        for f in findings:
            if f.get("property") == prop and f.get("status") == "open" and f["key"] in known:
                print(f"KNOWN-FINDING: property={prop} {f['key']} :: {f['what']} ({len(known[f['key']])} matching signatures)")
        cov = report.coverage
        summary = {k: cov[k] for k in ("states", "transitions", "evaluations", "distinct_nontrivial", "exhaustive", "bounds") if k in cov}
        print(f"{prop} tier={args.tier} seed={seed} level={report.level} {json.dumps(summary)} wall={timer():.1f}s")
        if new:
            for v, path in new[:40]:
                print(core.printable(f"  {v.key} :: {v.what}"))
                print(f"VIOLATION property={prop} replay={path}")
            if len(new) > 40:
                print(f"  ... and {len(new) - 40} more distinct violation signatures")
            return 1
        print(f"OK property={prop}")
        return 0
    except core.HarnessError as err:
        print(core.printable(f"HARNESS-ERROR property={prop}: {err}"))
        return 2
    except Exception as err:  # noqa: BLE001  a crash of the machinery is never a verdict
        import traceback

        traceback.print_exc()
        print(f"HARNESS-ERROR property={prop}: the check crashed: {type(err).__name__}: {err}")
        return 2


if __name__ == "__main__":
    sys.exit(main(sys.argv[1:]))
